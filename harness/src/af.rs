//! Allocation-failure family (C05, C07): the growable buffer (`Vec<u8>`) is written with `try_reserve`, so a refused
//! allocation must surface as `OutOfMemory` - never as an abort. A worker process runs each case with the global
//! allocator refusing every request above `limit` bytes; the parent turns a worker that dies into outcome 9.
//!   case = (kind, payload length, pattern, limit); kind 0 encode::<Vec<u8>>, 1 Decoder<Vec<u8>>::push_byte,
//!   2 decode_streaming::<Vec<u8>>;  outcome 1 correct result, 3 OutOfMemory reported, 12 wrong result, 8 panic, 9 abort
use crate::common::*;
use sml_rs::transport::{decode_streaming, encode, DecodeErr, Decoder};
use std::panic::{catch_unwind, AssertUnwindSafe};
use std::sync::atomic::Ordering::Relaxed;

pub fn cases(tier: &str) -> Vec<(u8, usize, u8, u64)> {
    let mut lens: Vec<usize> = (0..=40).collect();
    lens.extend([44, 52, 60, 63, 64, 65, 100, 116, 124, 127, 128, 130, 252, 300]);
    if tier == "thorough" {
        lens = (0..=300).collect();
    }
    let mut v = vec![];
    for kind in 0..3u8 {
        for &l in &lens {
            for pat in 0..3u8 {
                for limit in [1u64, 4, 8, 12, 16, 24, 32, 48, 64, 96, 128, 192, 256, 512] {
                    v.push((kind, l, pat, limit));
                }
            }
        }
    }
    v
}

fn payload(l: usize, pat: u8) -> Vec<u8> {
    (0..l).map(|i| match pat { 0 => 0x55, 1 => 0x1b, _ => if i % 3 == 0 { 0x00 } else { 0x1b } }).collect()
}

pub fn worker(tier: &str, from: usize) {
    use std::io::Write;
    crate::fe::quiet_panics();
    let stdout = std::io::stdout();
    for (idx, (kind, l, pat, limit)) in cases(tier).into_iter().enumerate().skip(from) {
        let p = payload(l, pat);
        let f = frame(&p);
        {
            let mut o = stdout.lock();
            writeln!(o, "BEGIN {}", idx).unwrap();
            o.flush().unwrap();
        }
        crate::alloc::LIMIT.store(limit, Relaxed);
        // results are kept alive until the limit is lifted; comparisons happen afterwards
        let code: i64 = match kind {
            0 => {
                let r = catch_unwind(AssertUnwindSafe(|| encode::<Vec<u8>>(&p)));
                crate::alloc::LIMIT.store(0, Relaxed);
                match r {
                    Ok(Ok(v)) => if v == f { 1 } else { 12 },
                    Ok(Err(_)) => 3,
                    Err(_) => 8,
                }
            }
            1 => {
                let r = catch_unwind(AssertUnwindSafe(|| {
                    let mut d: Decoder<Vec<u8>> = Decoder::new();
                    let mut code = 12;
                    for (i, b) in f.iter().enumerate() {
                        match d.push_byte(*b) {
                            Ok(None) => {}
                            Ok(Some(m)) => {
                                code = if i + 1 == f.len() && m == &p[..] { 1 } else { 12 };
                                break;
                            }
                            Err(DecodeErr::OutOfMemory) => {
                                code = 3;
                                break;
                            }
                            Err(_) => {
                                code = 12;
                                break;
                            }
                        }
                    }
                    code
                }));
                crate::alloc::LIMIT.store(0, Relaxed);
                r.unwrap_or(8)
            }
            _ => {
                let r = catch_unwind(AssertUnwindSafe(|| {
                    let mut it = decode_streaming::<Vec<u8>>(&f);
                    match it.next() {
                        Some(Ok(m)) => if m == &p[..] { 1 } else { 12 },
                        Some(Err(DecodeErr::OutOfMemory)) => 3,
                        _ => 12,
                    }
                }));
                crate::alloc::LIMIT.store(0, Relaxed);
                r.unwrap_or(8)
            }
        };
        let mut o = stdout.lock();
        writeln!(o, "DONE {} {}", idx, code).unwrap();
        o.flush().unwrap();
    }
}

/// parent: drives workers (restarting behind a case that killed one), returns one outcome per case
pub fn run(tier: &str) -> Vec<((u8, usize, u8, u64), i64)> {
    use std::io::{BufRead, BufReader};
    use std::process::{Command, Stdio};
    let cs = cases(tier);
    let exe = std::env::current_exe().unwrap();
    let mut results: Vec<i64> = vec![14; cs.len()];
    let mut from = 0usize;
    let mut restarts = 0;
    while from < cs.len() && restarts < 2000 {
        let mut child = Command::new(&exe).args(["af-worker", tier, &from.to_string()]).stdout(Stdio::piped()).stderr(Stdio::null()).spawn().expect("spawn worker");
        let stdout = child.stdout.take().unwrap();
        let (tx, rx) = std::sync::mpsc::channel::<String>();
        let th = std::thread::spawn(move || {
            for l in BufReader::new(stdout).lines().flatten() {
                if tx.send(l).is_err() {
                    break;
                }
            }
        });
        let mut current: Option<usize> = None;
        loop {
            match rx.recv_timeout(std::time::Duration::from_secs(30)) {
                Ok(l) => {
                    let p: Vec<&str> = l.split_whitespace().collect();
                    if p[0] == "BEGIN" {
                        current = Some(p[1].parse().unwrap());
                    } else if p[0] == "DONE" {
                        let idx: usize = p[1].parse().unwrap();
                        results[idx] = p[2].parse().unwrap();
                        current = None;
                        from = idx + 1;
                    }
                }
                Err(std::sync::mpsc::RecvTimeoutError::Timeout) => {
                    let _ = child.kill();
                    if let Some(idx) = current {
                        results[idx] = 13;
                        from = idx + 1;
                    }
                    break;
                }
                Err(_) => {
                    if let Some(idx) = current {
                        results[idx] = 9; // the worker died inside the measured region: abort
                        from = idx + 1;
                    }
                    break;
                }
            }
        }
        let _ = child.wait();
        let _ = th.join();
        restarts += 1;
    }
    cs.into_iter().zip(results).collect()
}
