//! Decoder front-ends of sml-rs driven through the public API; every call is wrapped in catch_unwind.
//!
//! Event encoding (int arrays): [pos, kind, ...]
//!   kind 1 ok       + payload bytes
//!        2 disc n   (DecodeErr::DiscardedBytes)
//!        3 oom
//!        4 invmsg   misaligned pad padbad crcok
//!        5 invesc   p0 p1 p2 p3
//!        6 fin n some   (finalize(): some=1 -> Some(DiscardedBytes(n)), some=0 -> None)
//!        7 rst n        (reset() return value)
//!        8 panic
//!        9 ioerr class n  (class 0 eof, 1 would-block, 2 other)
//!       10 none         (next() returned None)
//!       11 finother     (finalize() returned a non-DiscardedBytes error)
//! pos = number of bytes consumed when the result was reported (1-based index of the last byte), or -1 if the
//! front-end does not expose it.
use sml_rs::transport::{decode, decode_streaming, DecodeErr, Decoder, ReadDecodedError};
use sml_rs::util::{ArrayBuf, Buffer, ByteSourceErr};
use sml_rs::{DecodedBytes, SmlReader};
use std::cell::Cell;
use std::panic::{catch_unwind, AssertUnwindSafe};
use std::rc::Rc;

use crate::common::{OP_FIN, OP_RST};

pub type Ev = Vec<i64>;

pub fn ev_of_err(pos: i64, e: &DecodeErr) -> Ev {
    match e {
        DecodeErr::DiscardedBytes(n) => vec![pos, 2, *n as i64],
        DecodeErr::OutOfMemory => vec![pos, 3],
        DecodeErr::InvalidMessage { checksum_mismatch: (r, c), end_esc_misaligned, num_padding_bytes, invalid_padding_bytes } => {
            vec![pos, 4, *end_esc_misaligned as i64, *num_padding_bytes as i64, *invalid_padding_bytes as i64, (r == c) as i64]
        }
        DecodeErr::InvalidEsc(p) => vec![pos, 5, p[0] as i64, p[1] as i64, p[2] as i64, p[3] as i64],
    }
}
pub fn ev_ok(pos: i64, m: &[u8]) -> Ev {
    let mut v = vec![pos, 1];
    v.extend(m.iter().map(|b| *b as i64));
    v
}

pub fn quiet_panics() {
    // panics of the code under test are data (recorded as events); VF_LOUD=1 keeps the default hook for debugging the harness
    if std::env::var("VF_LOUD").is_err() {
        std::panic::set_hook(Box::new(|_| {}));
    }
}

/// Push decoder driven by ops (bytes, 256 finalize, 257 reset). If `fin_at_end`, a finalize() is appended.
pub fn run_push<B: Buffer>(ops: &[u32], fin_at_end: bool) -> Vec<Ev> {
    let mut out: Vec<Ev> = vec![];
    let r = catch_unwind(AssertUnwindSafe(|| {
        let mut d = Decoder::<B>::new();
        let mut pos: i64 = 0;
        let mut evs: Vec<Ev> = vec![];
        let total = ops.len() + fin_at_end as usize;
        for k in 0..total {
            let op = if k < ops.len() { ops[k] } else { OP_FIN };
            let step = catch_unwind(AssertUnwindSafe(|| match op {
                OP_FIN => match d.finalize() {
                    None => Some(vec![pos, 6, 0, 0]),
                    Some(DecodeErr::DiscardedBytes(n)) => Some(vec![pos, 6, n as i64, 1]),
                    Some(_) => Some(vec![pos, 11]),
                },
                OP_RST => Some(vec![pos, 7, d.reset() as i64]),
                b => match d.push_byte(b as u8) {
                    Ok(None) => None,
                    Ok(Some(m)) => Some(ev_ok(pos + 1, m)),
                    Err(e) => Some(ev_of_err(pos + 1, &e)),
                },
            }));
            if op < 256 {
                pos += 1;
            }
            match step {
                Ok(None) => {}
                Ok(Some(e)) => evs.push(e),
                Err(_) => {
                    evs.push(vec![pos, 8]);
                    return evs;
                }
            }
        }
        evs
    }));
    match r {
        Ok(e) => out.extend(e),
        Err(_) => out.push(vec![-1, 8]),
    }
    out
}

/// Push decoder constructed with Decoder::from_buf on a *recycled* buffer that still holds bytes from earlier use.
pub fn run_push_from_buf<B: Buffer>(ops: &[u32], fin_at_end: bool) -> Vec<Ev> {
    match catch_unwind(AssertUnwindSafe(|| {
        let mut old: B = Default::default();
        let _ = old.extend_from_slice(&[0xde, 0xad]);
        if old.is_empty() {
            let _ = old.push(0xde);
        }
        let mut d = Decoder::<B>::from_buf(old);
        let mut pos: i64 = 0;
        let mut evs: Vec<Ev> = vec![];
        for op in ops.iter().cloned().chain(if fin_at_end { Some(OP_FIN) } else { None }) {
            let e = match op {
                OP_FIN => match d.finalize() {
                    None => Some(vec![pos, 6, 0, 0]),
                    Some(DecodeErr::DiscardedBytes(n)) => Some(vec![pos, 6, n as i64, 1]),
                    Some(_) => Some(vec![pos, 11]),
                },
                OP_RST => Some(vec![pos, 7, d.reset() as i64]),
                b => {
                    pos += 1;
                    match d.push_byte(b as u8) {
                        Ok(None) => None,
                        Ok(Some(m)) => Some(ev_ok(pos, m)),
                        Err(e) => Some(ev_of_err(pos, &e)),
                    }
                }
            };
            if let Some(e) = e {
                evs.push(e);
            }
        }
        evs
    })) {
        Ok(v) => v,
        Err(_) => vec![vec![-1, 8]],
    }
}

/// decode(): whole stream, positions unobservable
pub fn run_decode(s: &[u8]) -> Vec<Ev> {
    match catch_unwind(AssertUnwindSafe(|| {
        decode(s).into_iter().map(|x| match x { Ok(m) => ev_ok(-1, &m), Err(e) => ev_of_err(-1, &e) }).collect::<Vec<_>>()
    })) {
        Ok(v) => v,
        Err(_) => vec![vec![-1, 8]],
    }
}

/// iterator that counts how many items were pulled
pub struct Counting<'a> {
    s: &'a [u8],
    i: usize,
    n: Rc<Cell<usize>>,
}
impl<'a> Iterator for Counting<'a> {
    type Item = u8;
    fn next(&mut self) -> Option<u8> {
        if self.i < self.s.len() {
            self.i += 1;
            self.n.set(self.i);
            Some(self.s[self.i - 1])
        } else {
            None
        }
    }
}
pub fn counting(s: &[u8]) -> (Counting<'_>, Rc<Cell<usize>>) {
    let n = Rc::new(Cell::new(0));
    (Counting { s, i: 0, n: n.clone() }, n)
}

/// decode_streaming::<B> over a counting iterator; `extra` more next() calls after the first None.
pub fn run_stream<B: Buffer>(s: &[u8], extra: usize) -> Vec<Ev> {
    match catch_unwind(AssertUnwindSafe(|| {
        let (it, n) = counting(s);
        let mut ds = decode_streaming::<B>(it);
        let mut out = vec![];
        let mut nones = 0;
        let mut guard = 0usize;
        loop {
            guard += 1;
            if guard > s.len() + 16 {
                out.push(vec![n.get() as i64, 12]);
                break;
            }
            match ds.next() {
                Some(Ok(m)) => out.push(ev_ok(n.get() as i64, m)),
                Some(Err(e)) => out.push(ev_of_err(n.get() as i64, &e)),
                None => {
                    out.push(vec![n.get() as i64, 10]);
                    nones += 1;
                    if nones > extra {
                        break;
                    }
                }
            }
        }
        out
    })) {
        Ok(v) => v,
        Err(_) => vec![vec![-1, 8]],
    }
}

pub fn ev_of_read_err<E: ByteSourceErr>(pos: i64, e: &ReadDecodedError<E>) -> Ev {
    match e {
        ReadDecodedError::DecodeErr(e) => ev_of_err(pos, e),
        ReadDecodedError::IoErr(e, n) => {
            let class = if e.is_eof() { 0 } else if e.is_would_block() { 1 } else { 2 };
            vec![pos, 9, class, *n as i64]
        }
    }
}

#[derive(Clone, Copy, PartialEq, Debug)]
pub enum Src {
    Slice,
    Iter,
    Io,
}

/// io::Read over a slice that counts delivered bytes; with `intr > 0` it reports ErrorKind::Interrupted once before
/// every byte whose index is a multiple of `intr` (and at the end of input), which the io::Read contract allows
pub struct CountingRead<'a> {
    s: &'a [u8],
    i: usize,
    n: Rc<Cell<usize>>,
    intr: usize,
    pending: bool,
}
impl<'a> std::io::Read for CountingRead<'a> {
    fn read(&mut self, buf: &mut [u8]) -> std::io::Result<usize> {
        if self.intr > 0 && self.i % self.intr == 0 && !self.pending {
            self.pending = true;
            return Err(std::io::Error::new(std::io::ErrorKind::Interrupted, "interrupted"));
        }
        self.pending = false;
        if self.i < self.s.len() && !buf.is_empty() {
            buf[0] = self.s[self.i];
            self.i += 1;
            self.n.set(self.i);
            Ok(1)
        } else {
            Ok(0)
        }
    }
}

macro_rules! reader_loop {
    ($r:expr, $n:expr, $len:expr, $extra:expr) => {{
        let mut out: Vec<Ev> = vec![];
        let mut nones = 0;
        let mut guard = 0usize;
        loop {
            guard += 1;
            if guard > $len + 16 {
                out.push(vec![$n as i64, 12]);
                break;
            }
            match $r.next::<DecodedBytes>() {
                Some(Ok(m)) => out.push(ev_ok($n as i64, m)),
                Some(Err(e)) => out.push(ev_of_read_err($n as i64, &e)),
                None => {
                    out.push(vec![$n as i64, 10]);
                    nones += 1;
                    if nones > $extra {
                        break;
                    }
                }
            }
        }
        out
    }};
}

/// SmlReader::next::<DecodedBytes> until None (+extra calls); buffer kind B via builder closure is not
/// expressible generically (Buffer is sealed, builders are per kind), hence three entry points.
pub fn run_reader_vec(s: &[u8], src: Src, extra: usize) -> Vec<Ev> {
    match catch_unwind(AssertUnwindSafe(|| match src {
        Src::Slice => {
            let mut r = SmlReader::with_vec_buffer().from_slice(s);
            reader_loop!(r, -1i64, s.len(), extra)
        }
        Src::Iter => {
            let (it, n) = counting(s);
            let mut r = SmlReader::with_vec_buffer().from_iterator(it);
            reader_loop!(r, n.get(), s.len(), extra)
        }
        Src::Io => {
            let n = Rc::new(Cell::new(0));
            let mut r = SmlReader::with_vec_buffer().from_reader(CountingRead { s, i: 0, n: n.clone(), intr: 0, pending: false });
            reader_loop!(r, n.get(), s.len(), extra)
        }
    })) {
        Ok(v) => v,
        Err(_) => vec![vec![-1, 8]],
    }
}
/// SmlReader (Vec buffer) over an io::Read that interleaves ErrorKind::Interrupted
pub fn run_reader_vec_interrupted(s: &[u8], extra: usize) -> Vec<Ev> {
    match catch_unwind(AssertUnwindSafe(|| {
        let n = Rc::new(Cell::new(0));
        let mut r = SmlReader::with_vec_buffer().from_reader(CountingRead { s, i: 0, n: n.clone(), intr: 5, pending: false });
        reader_loop!(r, n.get(), s.len(), extra)
    })) {
        Ok(v) => v,
        Err(_) => vec![vec![-1, 8]],
    }
}
pub fn run_reader_default(s: &[u8], src: Src, extra: usize) -> Vec<Ev> {
    match catch_unwind(AssertUnwindSafe(|| match src {
        Src::Slice => {
            let mut r = SmlReader::from_slice(s);
            reader_loop!(r, -1i64, s.len(), extra)
        }
        Src::Iter => {
            let (it, n) = counting(s);
            let mut r = SmlReader::from_iterator(it);
            reader_loop!(r, n.get(), s.len(), extra)
        }
        Src::Io => {
            let n = Rc::new(Cell::new(0));
            let mut r = SmlReader::from_reader(CountingRead { s, i: 0, n: n.clone(), intr: 0, pending: false });
            reader_loop!(r, n.get(), s.len(), extra)
        }
    })) {
        Ok(v) => v,
        Err(_) => vec![vec![-1, 8]],
    }
}
pub fn run_reader_static<const N: usize>(s: &[u8], src: Src, extra: usize) -> Vec<Ev> {
    match catch_unwind(AssertUnwindSafe(|| match src {
        Src::Slice => {
            let mut r = SmlReader::with_static_buffer::<N>().from_slice(s);
            reader_loop!(r, -1i64, s.len(), extra)
        }
        Src::Iter => {
            let (it, n) = counting(s);
            let mut r = SmlReader::with_static_buffer::<N>().from_iterator(it);
            reader_loop!(r, n.get(), s.len(), extra)
        }
        Src::Io => {
            let n = Rc::new(Cell::new(0));
            let mut r = SmlReader::with_static_buffer::<N>().from_reader(CountingRead { s, i: 0, n: n.clone(), intr: 0, pending: false });
            reader_loop!(r, n.get(), s.len(), extra)
        }
    })) {
        Ok(v) => v,
        Err(_) => vec![vec![-1, 8]],
    }
}

/// Run-time dispatch to ArrayBuf<N> instantiations (Buffer is sealed, N is a const generic).
#[macro_export]
macro_rules! with_arraybuf {
    ($n:expr, $mac:ident) => {
        $crate::with_arraybuf!(@m $n, $mac, 0 1 2 3 4 5 6 7 8 9 10 11 12 13 14 15 16 17 18 19 20 21 22 23 24 25 26 27 28 29 30 31 32
            33 34 35 36 37 38 39 40 41 42 43 44 45 46 47 48 64 96 128 255 256 257 300 1024 1100 8191 8192 8193 65535 65536 65537 65541 66000 70000)
    };
    (@m $n:expr, $mac:ident, $($k:literal)*) => {
        match $n { $( $k => $mac!($k), )* other => panic!("ArrayBuf<{}> is not instantiated in the harness", other) }
    };
}
pub const ARRAYBUF_SIZES: &[usize] = &[
    0, 1, 2, 3, 4, 5, 6, 7, 8, 9, 10, 11, 12, 13, 14, 15, 16, 17, 18, 19, 20, 21, 22, 23, 24, 25, 26, 27, 28, 29, 30, 31, 32, 33, 34, 35, 36, 37, 38, 39, 40,
    41, 42, 43, 44, 45, 46, 47, 48, 64, 96, 128, 255, 256, 257, 300, 1024, 1100, 8191, 8192, 8193, 65535, 65536, 65537, 65541, 66000, 70000,
];
/// smallest instantiated capacity >= n
pub fn cap_at_least(n: usize) -> usize {
    *ARRAYBUF_SIZES.iter().find(|c| **c >= n).expect("no ArrayBuf large enough")
}

pub fn run_push_n(n: usize, ops: &[u32], fin: bool) -> Vec<Ev> {
    macro_rules! go { ($k:literal) => { run_push::<ArrayBuf<$k>>(ops, fin) }; }
    with_arraybuf!(n, go)
}
pub fn run_stream_n(n: usize, s: &[u8], extra: usize) -> Vec<Ev> {
    macro_rules! go { ($k:literal) => { run_stream::<ArrayBuf<$k>>(s, extra) }; }
    with_arraybuf!(n, go)
}
pub fn run_reader_static_n(n: usize, s: &[u8], src: Src, extra: usize) -> Vec<Ev> {
    macro_rules! go { ($k:literal) => { run_reader_static::<$k>(s, src, extra) }; }
    with_arraybuf!(n, go)
}
pub fn run_push_from_buf_n(n: usize, ops: &[u32], fin: bool) -> Vec<Ev> {
    macro_rules! go { ($k:literal) => { run_push_from_buf::<ArrayBuf<$k>>(ops, fin) }; }
    with_arraybuf!(n, go)
}
