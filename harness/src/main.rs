mod common;
mod fe;
mod tr;
mod tr2;

fn main() {
    let a: Vec<String> = std::env::args().collect();
    if a.len() < 2 {
        eprintln!("usage: svh <cmd> <tier> <out>");
        std::process::exit(2);
    }
    let tier = a.get(2).map(|s| s.as_str()).unwrap_or("quick");
    let out = a.get(3).map(|s| s.as_str()).unwrap_or("/dev/stdout");
    match a[1].as_str() {
        "c01" => tr::cmd_encdec(tier, out, "c01"),
        "c07" => tr::cmd_encdec(tier, out, "c07"),
        "c02" => tr2::cmd_c02(tier, out),
        "c05" => tr2::cmd_c05(tier, out),
        "c08" => tr2::cmd_c08(tier, out),
        "c14" => tr2::cmd_c14(tier, out),
        "c15" => tr2::cmd_c15(tier, out),
        "c16" => tr2::cmd_c16(tier, out),
        "c17" => tr2::cmd_c17(tier, out),
        other => {
            eprintln!("unknown command {}", other);
            std::process::exit(2);
        }
    }
}
