mod ab;
mod af;
mod alloc;
mod common;
mod fe;
mod pc;
mod pf;
mod ps;
mod rd;
mod tr;
mod tr2;

#[global_allocator]
static GLOBAL: alloc::Counting = alloc::Counting;

fn main() {
    let a: Vec<String> = std::env::args().collect();
    if a.len() < 2 {
        eprintln!("usage: svh <cmd> <tier> <out>");
        std::process::exit(2);
    }
    let tier = a.get(2).map(|s| s.as_str()).unwrap_or("quick");
    let out = a.get(3).map(|s| s.as_str()).unwrap_or("/dev/stdout");
    match a[1].as_str() {
        "c01" => tr::cmd_encdec(tier, out, "c01"),
        "c07" => tr::cmd_encdec(tier, out, "c07"),
        "c02" => tr2::cmd_c02(tier, out),
        "c05" => tr2::cmd_c05(tier, out),
        "c08" => tr2::cmd_c08(tier, out),
        "c14" => tr2::cmd_c14(tier, out),
        "c15" => tr2::cmd_c15(tier, out),
        "c16" => tr2::cmd_c16(tier, out),
        "c17" => tr2::cmd_c17(tier, out),
        "c18" => ab::cmd_c18(tier, out),
        "c11" => rd::cmd_c11(tier, out),
        "c10" => rd::cmd_c10(tier, out),
        "c03" => pc::cmd_c03(tier, out),
        "c04" => pc::cmd_parser(tier, out, "c04"),
        "c09" => pc::cmd_parser(tier, out, "c09"),
        "c13" => pc::cmd_parser(tier, out, "c13"),
        "c12" => pc::cmd_c12(tier, out),
        "c06" => pc::cmd_c06(tier, out),
        "af-worker" => af::worker(tier, a[3].parse().unwrap()),
        "c06-worker" => pc::cmd_c06_worker(&a[2], a[3].parse().unwrap()),
        other => {
            eprintln!("unknown command {}", other);
            std::process::exit(2);
        }
    }
}
