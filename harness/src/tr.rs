//! Transport-layer stimulus families and observation records (C01 C02 C05 C07 C08 C14 C15 C16 C17).
use crate::common::*;
use crate::fe::*;
use sml_rs::transport::{encode, encode_streaming};
use sml_rs::util::ArrayBuf;
use std::collections::BTreeMap;
use std::panic::{catch_unwind, AssertUnwindSafe};

pub const CL_PUSH: u8 = 1;
pub const CL_WHOLE: u8 = 2;
pub const CL_PULL: u8 = 3;
pub const CL_READER: u8 = 4;

/// Run every decoding front-end on stream `s`. `nfix` = capacity used for the fixed-buffer variants.
pub fn all_frontends(s: &[u8], nfix: usize, with_default: bool) -> Vec<(u8, u16, Vec<Ev>)> {
    let ops: Vec<u32> = s.iter().map(|b| *b as u32).collect();
    let mut v: Vec<(u8, u16, Vec<Ev>)> = vec![
        (CL_PUSH, 1, run_push::<Vec<u8>>(&ops, true)),
        (CL_PUSH, 2, run_push_n(nfix, &ops, true)),
        (CL_PUSH, 15, run_push_from_buf::<Vec<u8>>(&ops, true)),
        (CL_PUSH, 16, run_push_from_buf_n(nfix.max(2), &ops, true)),
        (CL_WHOLE, 3, run_decode(s)),
        (CL_PULL, 4, run_stream::<Vec<u8>>(s, 2)),
        (CL_PULL, 5, run_stream_n(nfix, s, 2)),
        (CL_READER, 6, run_reader_vec(s, Src::Slice, 2)),
        (CL_READER, 7, run_reader_vec(s, Src::Iter, 2)),
        (CL_READER, 8, run_reader_vec(s, Src::Io, 2)),
        (CL_READER, 17, run_reader_vec_interrupted(s, 2)),
        (CL_READER, 9, run_reader_static_n(nfix, s, Src::Slice, 2)),
        (CL_READER, 10, run_reader_static_n(nfix, s, Src::Iter, 2)),
        (CL_READER, 11, run_reader_static_n(nfix, s, Src::Io, 2)),
    ];
    if with_default {
        v.push((CL_READER, 12, run_reader_default(s, Src::Slice, 2)));
        v.push((CL_READER, 13, run_reader_default(s, Src::Iter, 2)));
        v.push((CL_READER, 14, run_reader_default(s, Src::Io, 2)));
    }
    v
}

/// Group identical (class, events) observations: -> JSON array of {"c":class,"f":[fe ids],"e":[events]}
pub fn group_obs(obs: &[(u8, u16, Vec<Ev>)]) -> String {
    let mut m: BTreeMap<(u8, Vec<Ev>), Vec<u16>> = BTreeMap::new();
    for (c, f, e) in obs {
        m.entry((*c, e.clone())).or_default().push(*f);
    }
    let mut parts = vec![];
    for ((c, e), f) in m {
        parts.push(format!("{{\"c\":{},\"f\":{},\"e\":{}}}", c, jarr(&f), jarr2(&e)));
    }
    format!("[{}]", parts.join(","))
}

fn enc_buf_vec(p: &[u8]) -> Result<Vec<u8>, i64> {
    match catch_unwind(AssertUnwindSafe(|| encode::<Vec<u8>>(p))) {
        Ok(Ok(v)) => Ok(v),
        Ok(Err(_)) => Err(3),
        Err(_) => Err(8),
    }
}
fn enc_buf_n(n: usize, p: &[u8]) -> Result<Vec<u8>, i64> {
    macro_rules! go {
        ($k:literal) => {
            match catch_unwind(AssertUnwindSafe(|| encode::<ArrayBuf<$k>>(p))) {
                Ok(Ok(v)) => Ok(v.to_vec()),
                Ok(Err(_)) => Err(3),
                Err(_) => Err(8),
            }
        };
    }
    crate::with_arraybuf!(n, go)
}
/// encode::<Vec<u8>> fed by an open-ended iterator (size_hint upper bound usize::MAX) that yields exactly p
fn enc_buf_vec_iter(p: &[u8]) -> Result<Vec<u8>, i64> {
    match catch_unwind(AssertUnwindSafe(|| encode::<Vec<u8>>((0..usize::MAX).map_while(|i| p.get(i).copied())))) {
        Ok(Ok(v)) => Ok(v),
        Ok(Err(_)) => Err(3),
        Err(_) => Err(8),
    }
}
/// encode::<ArrayBuf<N>> fed by a filtered iterator (size_hint (0, Some(2|p|))) that yields exactly p
fn enc_buf_n_iter(n: usize, p: &[u8]) -> Result<Vec<u8>, i64> {
    macro_rules! go {
        ($k:literal) => {
            match catch_unwind(AssertUnwindSafe(|| encode::<ArrayBuf<$k>>((0..2 * p.len()).filter(|i| i % 2 == 0).map(|i| p[i / 2])))) {
                Ok(Ok(v)) => Ok(v.to_vec()),
                Ok(Err(_)) => Err(3),
                Err(_) => Err(8),
            }
        };
    }
    crate::with_arraybuf!(n, go)
}
/// iterator encoder; returns bytes and how many of `extra` additional next() calls returned Some
fn enc_iter(p: &[u8], extra: usize) -> Result<(Vec<u8>, usize), i64> {
    match catch_unwind(AssertUnwindSafe(|| {
        let mut it = encode_streaming(p);
        let mut v = vec![];
        let limit = 2 * p.len() + 64;
        loop {
            match it.next() {
                Some(b) => {
                    v.push(b);
                    if v.len() > limit {
                        return Err(12);
                    }
                }
                None => break,
            }
        }
        let mut somes = 0;
        for _ in 0..extra {
            if it.next().is_some() {
                somes += 1;
            }
        }
        Ok((v, somes))
    })) {
        Ok(r) => r,
        Err(_) => Err(8),
    }
}

/// A legal but non-fused byte source: yields `p`, then `None` once, then eight more bytes, then `None` for good.
/// By the `Iterator` protocol the payload is what comes before the first `None`.
struct Resuming<'a> {
    p: &'a [u8],
    i: usize,
}
impl<'a> Iterator for Resuming<'a> {
    type Item = u8;
    fn next(&mut self) -> Option<u8> {
        let i = self.i;
        self.i += 1;
        if i < self.p.len() {
            Some(self.p[i])
        } else if i == self.p.len() || i > self.p.len() + 8 {
            None
        } else {
            Some(0xa0 + (i - self.p.len()) as u8)
        }
    }
}
/// iterator encoder over the non-fused source
fn enc_iter_resuming(p: &[u8]) -> Result<Vec<u8>, i64> {
    match catch_unwind(AssertUnwindSafe(|| {
        let mut v = vec![];
        for b in encode_streaming(Resuming { p, i: 0 }) {
            v.push(b);
            if v.len() > 2 * p.len() + 64 {
                return Err(12);
            }
        }
        Ok(v)
    })) {
        Ok(r) => r,
        Err(_) => Err(8),
    }
}
/// buffer encoder over the non-fused source
fn enc_buf_resuming(p: &[u8]) -> Result<Vec<u8>, i64> {
    match catch_unwind(AssertUnwindSafe(|| encode::<Vec<u8>>(Resuming { p, i: 0 }))) {
        Ok(Ok(v)) => Ok(v),
        Ok(Err(_)) => Err(3),
        Err(_) => Err(8),
    }
}

/// maximal run-length encoding [[byte, count]...]
pub fn rle(b: &[u8]) -> Vec<Vec<i64>> {
    let mut v: Vec<Vec<i64>> = vec![];
    for x in b {
        match v.last_mut() {
            Some(l) if l[0] == *x as i64 => l[1] += 1,
            _ => v.push(vec![*x as i64, 1]),
        }
    }
    v
}

/// outcome of every encoder entry point on payload p, as events [-1, kind] (kind 1 ok, 3 out-of-memory, 8 panic,
/// 12 runaway, 14 yielded a byte after the end): growable buffer, fixed buffers around the frame length, iterator
/// drained and then polled 400 (or 70000) more times
pub fn encoder_outcomes(p: &[u8]) -> Vec<Vec<i64>> {
    let mut out: Vec<Vec<i64>> = vec![];
    let k = |r: &Result<Vec<u8>, i64>| match r {
        Ok(_) => 1,
        Err(k) => *k,
    };
    out.push(vec![-1, k(&enc_buf_vec(p))]);
    let fl = frame(p).len();
    for n in ARRAYBUF_SIZES.iter().filter(|n| **n + 2 >= fl && **n <= fl + 2 || **n < 2) {
        out.push(vec![-1, k(&enc_buf_n(*n, p))]);
    }
    // iterator adaptors on endless / astronomically long inputs: size_hint, take(n).collect, zip
    let huge = catch_unwind(AssertUnwindSafe(|| {
        let b = p.first().cloned().unwrap_or(0x42);
        let mut n = 0usize;
        let e = encode_streaming(std::iter::repeat(b));
        let _ = e.size_hint();
        n += e.take(32).collect::<Vec<u8>>().len();
        let mut e2 = encode_streaming(std::iter::repeat(b).take(usize::MAX));
        let _ = e2.size_hint();
        let _ = e2.next();
        let _ = e2.size_hint();
        let mut v: Vec<u8> = vec![];
        v.extend(e2.by_ref().take(16));
        n += v.len();
        let e3 = encode_streaming((0..u64::MAX).map(|x| x as u8));
        n += e3.zip(0..20).count();
        n
    }));
    out.push(vec![-1, match huge {
        Ok(68) => 1,
        Ok(_) => 14,
        Err(_) => 8,
    }]);
    let polls = if p.len() % 97 == 3 || p.is_empty() { 70000 } else { 400 };
    match enc_iter(p, polls) {
        Ok((_, somes)) => out.push(vec![-1, if somes == 0 { 1 } else { 14 }]),
        Err(kind) => out.push(vec![-1, kind]),
    }
    out
}

pub fn payload_family(tier: &str, rng: &mut Rng) -> Vec<Vec<u8>> {
    let alpha = [0x1bu8, 0, 1, 0x1a, 0x55];
    let k = if tier == "thorough" { 8 } else { 6 };
    let mut v: Vec<Vec<u8>> = vec![];
    for len in 0..=k {
        for idx in 0..alpha.len().pow(len as u32) {
            v.push(seq_by_index(&alpha, len, idx));
        }
    }
    // LEN family: lengths x contents
    let lens: Vec<usize> = if tier == "thorough" {
        (0..=1030).collect()
    } else {
        (0..=20).chain(250..=262).chain(508..=516).chain(1020..=1030).collect()
    };
    for l in lens {
        v.push(vec![0x55; l]);
        v.push(vec![0x1b; l]);
        v.push(vec![0x00; l]);
        v.push((0..l).map(|i| [0x1b, 0x1b, 0x1b, 0x1b, 0x1b, 0x00, 0x55][i % 7]).collect());
        v.push((0..l).map(|i| if i + 3 >= l { 0x1b } else { 0x42 }).collect());
        v.push((0..l).map(|i| if i + 5 >= l { 0x00 } else { 0x42 }).collect());
    }
    for l in [8191usize, 8192, 8193, 65535, 65536, 65537, 70000 - 16] {
        v.push(vec![0x55; l]);
        if tier == "thorough" && l * 11 / 7 + 24 <= 70000 {
            // (one escape per 7 payload bytes: the frame must still fit the largest instantiated ArrayBuf)
            v.push((0..l).map(|i| [0x1b, 0x1b, 0x1b, 0x1b, 0x1b, 0x00, 0x55][i % 7]).collect());
        }
    }
    // RUNPOS: a run of 4..6 0x1b bytes starting at every offset 0..=200 (chunking / counter boundaries), alone and after an earlier escape
    for o in 0..=(if tier == "thorough" { 300 } else { 200 }) {
        for r in [4usize, 5, 8] {
            let mut p = vec![0x42u8; o];
            p.extend(std::iter::repeat(0x1b).take(r));
            p.extend([0x43, 0x44]);
            v.push(p.clone());
            if r == 4 {
                let mut q = vec![0x1b; 4];
                q.extend(&p);
                v.push(q);
            }
        }
    }
    // CRCSPECIAL: one free byte swept over all values in front of tails that end in 1-3 0x1b / zeros without padding, so
    // that the checksum bytes take every value - including 1b, 1a, 01, 00, which look like escape / end / start bytes
    for tail in [vec![0x1bu8], vec![0x1b, 0x1b], vec![0x1b, 0x1b, 0x1b], vec![0x00], vec![0x00, 0x00, 0x00], vec![0x55]] {
        for fixed in [0x76u8, 0x00] {
            for x in 0..=255u8 {
                // total length a multiple of 4 (no padding) and one variant with padding
                for total in [4usize, 8, 6] {
                    if tail.len() + 2 > total {
                        continue;
                    }
                    let mut p = vec![fixed, x];
                    p.extend(std::iter::repeat(0x42).take(total - 2 - tail.len()));
                    p.extend(&tail);
                    v.push(p);
                }
            }
        }
    }
    // corpus payloads and random payloads biased to 1b / 00 runs
    v.extend(corpus_payloads());
    let nrand = if tier == "thorough" { 2000 } else { 300 };
    for _ in 0..nrand {
        let l = match rng.below(10) {
            0 => rng.below(3000),
            1 => 250 + rng.below(20),
            _ => rng.below(64),
        };
        let mut p = Vec::with_capacity(l);
        while p.len() < l {
            match rng.below(6) {
                0 => {
                    let r = 1 + rng.below(9);
                    p.extend(std::iter::repeat(0x1b).take(r))
                }
                1 => {
                    let r = 1 + rng.below(6);
                    p.extend(std::iter::repeat(0x00).take(r))
                }
                2 => p.extend([0x1b, 0x1b, 0x1b, 0x1b, 0x1a, rng.below(4) as u8]),
                3 => p.extend([1, 1, 1, 1]),
                _ => p.push(rng.byte()),
            }
        }
        p.truncate(l);
        v.push(p);
    }
    v
}

/// C01 / C07 records: one per payload.
///  {"p":payload,"encs":[{"k":kind,"f":[enc ids],"b":bytes}], "obs":[...front-end groups on the frame...],
///   "caps":[[cap, kind]...], "fused": somes }
/// enc ids: 1 encode::<Vec>, 2 encode::<ArrayBuf<N>> with N >= frame length, 3 encode_streaming,
///          4 / 5 = 1 / 2 fed through iterators with an inexact size_hint
/// kind: 0 ok, 3 out-of-memory, 8 panic, 12 runaway
pub fn cmd_encdec(tier: &str, out: &str, which: &str) {
    quiet_panics();
    let mut rng = Rng::new(seed());
    let pays = payload_family(tier, &mut rng);
    let mut sink = Sink::create(out);
    for p in &pays {
        let own = frame(p); // only to choose capacities; never compared with anything
        let big = cap_at_least(own.len());
        let mut encs: BTreeMap<(i64, Vec<u8>), Vec<u16>> = BTreeMap::new();
        let mut put = |id: u16, r: Result<Vec<u8>, i64>| match r {
            Ok(b) => encs.entry((0, b)).or_default().push(id),
            Err(k) => encs.entry((k, vec![])).or_default().push(id),
        };
        put(1, enc_buf_vec(p));
        put(2, enc_buf_n(big, p));
        if p.len() <= 1100 {
            // the same through iterators with an inexact size_hint: the result must not depend on the hint
            put(4, enc_buf_vec_iter(p));
            put(5, enc_buf_n_iter(big, p));
            // the same through a non-fused source that yields more bytes after its first None (ids 6 iterator encoder,
            // 7 buffer encoder): the payload ends at the first None
            put(6, enc_iter_resuming(p));
            put(7, enc_buf_resuming(p));
        }
        // poll the exhausted iterator far beyond any 8-bit (always) or 16-bit (some payloads) internal counter
        let extra_polls = if p.len() % 97 == 3 || p.is_empty() { 70000 } else { 300 };
        let it = enc_iter(p, extra_polls);
        let fused = match &it {
            Ok((_, s)) => *s as i64,
            Err(_) => -1,
        };
        put(3, it.map(|x| x.0));
        let long = p.len() > 1100;
        let encs_json: Vec<String> = encs
            .iter()
            .map(|((k, b), f)| format!("{{\"k\":{},\"f\":{},\"b\":{}}}", k, jarr(f), if long && which == "c07" { jarr2(&rle(b)) } else { jarr(b) }))
            .collect();
        if which == "c07" && long {
            // long payloads are judged in run-length form (FrameRle.CanonicalRle)
            sink.put(format!("{{\"rle\":1,\"p\":{},\"encs\":[{}],\"fused\":{},\"caps\":[]}}", jarr2(&rle(p)), encs_json.join(","), fused));
        } else if which == "c07" {
            // capacities around the frame length (only instantiated sizes can be tried)
            let mut caps: Vec<Vec<i64>> = vec![];
            if p.len() <= 40 || tier == "thorough" {
                for n in ARRAYBUF_SIZES.iter().filter(|n| **n + 12 >= own.len() && **n <= own.len() + 12 || (**n < 3)) {
                    let r = enc_buf_n(*n, p);
                    let (k, l) = match &r {
                        Ok(b) => (0, b.len() as i64),
                        Err(k) => (*k, -1),
                    };
                    // eq: 1 if the bytes equal those of the growable-buffer encoder
                    let same = match (&r, encs.iter().find(|((k, _), f)| *k == 0 && f.contains(&1))) {
                        (Ok(b), Some(((_, vb), _))) => (b == vb) as i64,
                        _ => -1,
                    };
                    caps.push(vec![*n as i64, k, l, same]);
                }
            }
            sink.put(format!("{{\"rle\":0,\"p\":{},\"encs\":[{}],\"fused\":{},\"caps\":{}}}", jarr(p), encs_json.join(","), fused, jarr2(&caps)));
        } else {
            // C01: every distinct frame through every front-end with a capacity of exactly |p| (and a growable buffer)
            for ((k, b), f) in encs.iter() {
                if *k != 0 {
                    sink.put(format!("{{\"p\":{},\"enc\":{},\"kind\":{},\"frame\":[],\"obs\":[]}}", jarr(p), jarr(f), k));
                    continue;
                }
                let nfix = cap_at_least(p.len());
                let exact = nfix == p.len();
                let obs = all_frontends(b, nfix, p.len() <= 8192);
                sink.put(format!("{{\"p\":{},\"enc\":{},\"kind\":0,\"exact\":{},\"frame\":{},\"obs\":{}}}", jarr(p), jarr(f), exact as u8, jarr(b), group_obs(&obs)));
            }
        }
    }
    let (raw, distinct) = sink.finish();
    println!("{{\"family\":\"{}\",\"payloads\":{},\"raw\":{},\"distinct\":{}}}", which, pays.len(), raw, distinct);
}

// ------------------------------------------------------------------------------------------------
// token-tree families
// ------------------------------------------------------------------------------------------------

pub fn adv_alphabet(with_calls: bool) -> Vec<Tok> {
    let mut al: Vec<Tok> = [0x1bu8, 1, 0x1a, 0, 2, 3, 0x55].iter().map(|b| Tok::B(*b)).collect();
    al.push(Tok::Start);
    al.push(Tok::Esc4);
    for pad in 0..=4 {
        for mode in 0..=3 {
            al.push(Tok::End(pad, mode));
        }
    }
    if with_calls {
        al.push(Tok::Fin);
        al.push(Tok::Rst);
    }
    al
}

/// depth-first enumeration of token sequences; `visit(tokens, is_leaf)`
pub fn walk(toks: &mut Vec<Tok>, depth: usize, alphabet: &[Tok], visit: &mut dyn FnMut(&[Tok], bool)) {
    visit(toks, depth == 0);
    if depth == 0 {
        return;
    }
    for t in alphabet {
        toks.push(t.clone());
        walk(toks, depth - 1, alphabet, visit);
        toks.pop();
    }
}

/// number of ops contributed by the last token
fn last_tok_ops(toks: &[Tok]) -> usize {
    if toks.is_empty() {
        return 0;
    }
    expand(toks).len() - expand(&toks[..toks.len() - 1]).len()
}

/// Families of streams for the decoder properties. Calls `f(ops, new_from)` for every stream, where events at
/// op index > new_from are "new" at this node (not already reported for a prefix node).
pub fn stream_families(tier: &str, fams: &[&str], rng: &mut Rng, f: &mut dyn FnMut(&[u32], usize)) {
    for fam in fams {
        match *fam {
            "adv" => {
                let depth = if tier == "thorough" { 5 } else { 4 };
                let al = adv_alphabet(false);
                let mut t = vec![Tok::Start];
                walk(&mut t, depth, &al, &mut |toks, _| {
                    let ops = expand(toks);
                    let n = last_tok_ops(toks);
                    f(&ops, ops.len() - n);
                });
            }
            "hist" => {
                let depth = if tier == "thorough" { 4 } else { 3 };
                let al = adv_alphabet(true);
                let mut t = vec![];
                walk(&mut t, depth, &al, &mut |toks, _| {
                    let ops = expand(toks);
                    let n = last_tok_ops(toks);
                    f(&ops, ops.len() - n);
                });
            }
            "inframe" => {
                let k = if tier == "thorough" { 7 } else { 5 };
                let bytes = [0x1bu8, 0, 0x55, 0x1a, 1];
                for len in 0..=k {
                    for idx in 0..bytes.len().pow(len as u32) {
                        let body = seq_by_index(&bytes, len, idx);
                        let mut t = vec![Tok::Start];
                        t.extend(body.iter().map(|b| Tok::B(*b)));
                        for pad in 0..=4u8 {
                            for mode in [0u8, 3] {
                                t.push(Tok::End(pad, mode));
                                let ops = expand(&t);
                                f(&ops, 0);
                                for b in [0x1bu8, 0x55] {
                                    let mut t2 = t.clone();
                                    t2.push(Tok::B(b));
                                    t2.push(Tok::Frame(vec![0x42]));
                                    f(&expand(&t2), ops.len());
                                }
                                t.pop();
                            }
                        }
                    }
                }
            }
            "histframe" => {
                for (_, h) in idle_histories() {
                    let hl = expand(&h).len();
                    for g in [vec![], vec![0x55u8], vec![0x1b], vec![0x1b, 0x1b, 0x1b, 0x1b, 0x01]] {
                        for m in [vec![], vec![0x42u8], vec![0, 0], vec![0x1b, 0x1b, 0x1b, 0x1b, 0x42, 0]] {
                            let mut t = h.clone();
                            t.extend(g.iter().map(|b| Tok::B(*b)));
                            t.push(Tok::Frame(m));
                            f(&expand(&t), hl);
                        }
                    }
                }
            }
            "nearstart" => {
                let alpha = [0x1bu8, 0x01, 0x55, 0x00];
                let mut starts: Vec<Vec<u8>> = vec![];
                for i in 0..=8usize {
                    for b in alpha {
                        let mut v = START.to_vec();
                        v.insert(i, b);
                        starts.push(v.clone());
                        for j in 0..=9usize {
                            if j != i && (i + j) % 3 == 0 {
                                let mut w = v.clone();
                                w.insert(j, 0x1b);
                                starts.push(w);
                            }
                        }
                    }
                }
                for i in 0..8usize {
                    let mut v = START.to_vec();
                    v.remove(i);
                    starts.push(v);
                    for b in alpha {
                        let mut v = START.to_vec();
                        if v[i] != b {
                            v[i] = b;
                            starts.push(v);
                        }
                    }
                }
                starts.retain(|v| !v.windows(8).any(|w| w == START));
                starts.sort();
                starts.dedup();
                for st in &starts {
                    for m in [vec![], vec![0x12u8, 0x34, 0x56, 0x78], vec![0x55], vec![0x1b, 0x1b, 0x1b, 0x1b, 0x42]] {
                        let fr = frame(&m);
                        let mut s: Vec<u32> = st.iter().map(|b| *b as u32).collect();
                        s.extend(fr[8..].iter().map(|b| *b as u32));
                        f(&s, 0);
                        // the same behind a delivered frame
                        let mut s2: Vec<u32> = frame(&[0x42]).iter().map(|b| *b as u32).collect();
                        let l = s2.len();
                        s2.extend(s.iter().cloned());
                        f(&s2, l);
                    }
                }
            }
            "rawcrc" => {
                // the adversary supplies a matching checksum wherever the decoder might compare one: after *any* body
                // (not only behind a well-formed end sequence), in particular behind end markers that follow a damaged
                // or misplaced escape sequence
                let k = if tier == "thorough" { 8 } else { 6 };
                let bytes = [0x1bu8, 0, 0x55, 0x1a];
                for len in 2..=k {
                    for idx in 0..bytes.len().pow(len as u32) {
                        let body = seq_by_index(&bytes, len, idx);
                        if !body.contains(&0x1a) {
                            continue;
                        }
                        let mut t = vec![Tok::Start];
                        t.extend(body.iter().map(|b| Tok::B(*b)));
                        t.push(Tok::Crc(0));
                        f(&expand(&t), 0);
                    }
                }
                let pres = [0x55u8, 0, 0x1b];
                let fills = [0x1bu8, 0x55, 0x1a, 0, 0x66];
                for pl in 0..=3usize {
                    for pi in 0..pres.len().pow(pl as u32) {
                        let pre = seq_by_index(&pres, pl, pi);
                        for fl in 0..=3usize {
                            for fi in 0..fills.len().pow(fl as u32) {
                                let fill = seq_by_index(&fills, fl, fi);
                                for pad in 0..=3u8 {
                                    let mut t = vec![Tok::Start];
                                    t.extend(pre.iter().map(|b| Tok::B(*b)));
                                    t.push(Tok::Esc4);
                                    t.extend(fill.iter().map(|b| Tok::B(*b)));
                                    t.push(Tok::B(0x1a));
                                    t.push(Tok::B(pad));
                                    t.push(Tok::Crc(0));
                                    let ops = expand(&t);
                                    f(&ops, 0);
                                    if pad == 0 && fl == 2 {
                                        let mut t2 = t.clone();
                                        t2.push(Tok::Frame(vec![0x42]));
                                        f(&expand(&t2), ops.len());
                                    }
                                }
                            }
                        }
                    }
                }
            }
            "padx" => {
                // end sequences declaring extreme pad counts (the byte comes straight from the wire)
                let bodies: Vec<Vec<u8>> = vec![vec![], vec![0x55], vec![0, 0, 0, 0], vec![0x55, 0, 0, 0], vec![0x1b, 0x1b, 0x1b], vec![0; 8]];
                for body in &bodies {
                    for pad in [4u8, 5, 15, 16, 127, 128, 238, 239, 240, 241, 254, 255] {
                        for mode in [0u8, 3] {
                            let mut t = vec![Tok::Start];
                            t.extend(body.iter().map(|b| Tok::B(*b)));
                            t.push(Tok::End(pad, mode));
                            let ops = expand(&t);
                            f(&ops, 0);
                            let mut t2 = t.clone();
                            t2.push(Tok::Frame(vec![0x42]));
                            f(&expand(&t2), ops.len());
                        }
                    }
                }
            }
            "noise" => {
                let k = if tier == "thorough" { 9 } else { 7 };
                let bytes = [0x1bu8, 1, 0x55];
                let hists = idle_histories();
                let frames: Vec<Vec<u8>> = vec![vec![], vec![0x55], vec![0x1b], vec![0, 0]];
                for (_, h) in &hists {
                    for len in 0..=k {
                        for idx in 0..bytes.len().pow(len as u32) {
                            let g = seq_by_index(&bytes, len, idx);
                            for m in &frames {
                                let mut t = h.clone();
                                let hl = expand(&t).len();
                                t.extend(g.iter().map(|b| Tok::B(*b)));
                                t.push(Tok::Frame(m.clone()));
                                f(&expand(&t), hl);
                            }
                        }
                    }
                }
            }
            "corpus" => {
                for (_, b) in corpus_files() {
                    let ops: Vec<u32> = b.iter().map(|x| *x as u32).collect();
                    f(&ops, 0);
                }
            }
            "mut" => {
                // seeded random mutations of corpus dumps and generated multi-frame streams
                let n = if tier == "thorough" { 30000 } else { 3000 };
                let files = corpus_files();
                for _ in 0..n {
                    let mut s: Vec<u8> = if !files.is_empty() && rng.chance(1, 2) {
                        let b = &files[rng.below(files.len())].1;
                        let fr = scan_frames(b);
                        if fr.is_empty() {
                            b[..b.len().min(400)].to_vec()
                        } else {
                            let mut s = vec![];
                            for _ in 0..1 + rng.below(2) {
                                s.extend(&fr[rng.below(fr.len())].0);
                            }
                            s
                        }
                    } else {
                        let mut s = vec![];
                        for _ in 0..1 + rng.below(3) {
                            let l = rng.below(12);
                            let p: Vec<u8> = (0..l).map(|_| *rng.pick(&[0x1bu8, 0x1b, 0, 0, 1, 0x1a, 0x55, 0x42])).collect();
                            s.extend(frame(&p));
                            for _ in 0..rng.below(3) {
                                s.push(*rng.pick(&[0x1bu8, 1, 0x55, 0]));
                            }
                        }
                        s
                    };
                    for _ in 0..1 + rng.below(3) {
                        if s.is_empty() {
                            break;
                        }
                        let pos = rng.below(s.len());
                        match rng.below(6) {
                            0 => s[pos] ^= 1 << rng.below(8),
                            1 => {
                                s.remove(pos);
                            }
                            2 => s.insert(pos, *rng.pick(&[0x1bu8, 0, 1, 0x1a, 0x55])),
                            3 => s.truncate(pos),
                            4 => {
                                let ins = [0x1bu8, 0x1b, 0x1b, 0x1b, 1, 1, 1, 1];
                                for (i, b) in ins.iter().enumerate() {
                                    s.insert(pos + i, *b);
                                }
                            }
                            _ => s[pos] = *rng.pick(&[0x1bu8, 0, 1, 0x1a]),
                        }
                    }
                    // optionally recompute the checksum of the last end sequence for the whole stream / last start
                    if s.len() >= 16 && rng.chance(1, 2) {
                        if let Some(e) = (0..s.len() - 7).rev().find(|i| s[*i..*i + 5] == [0x1b, 0x1b, 0x1b, 0x1b, 0x1a]) {
                            let from = if rng.chance(1, 2) { 0 } else { (0..e).rev().find(|i| *i + 8 <= s.len() && s[*i..*i + 8] == START).unwrap_or(0) };
                            let c = crc16(&s[from..e + 6]);
                            s[e + 6] = c as u8;
                            s[e + 7] = (c >> 8) as u8;
                        }
                    }
                    let ops: Vec<u32> = s.iter().map(|x| *x as u32).collect();
                    f(&ops, 0);
                }
            }
            other => panic!("unknown family {}", other),
        }
    }
}

pub fn idle_histories() -> Vec<(&'static str, Vec<Tok>)> {
    let badframe: Vec<Tok> = {
        let mut c = frame(&[0x33]);
        let l = c.len();
        c[l - 1] ^= 1;
        c.into_iter().map(Tok::B).collect()
    };
    let badesc: Vec<Tok> = START.iter().cloned().chain([0x1b, 0x1b, 0x1b, 0x1b, 0x1c, 0, 0, 0]).map(Tok::B).collect();
    // an invalid-message error whose last checksum byte is 0x1b, and invalid escapes whose payload ends in 0x1b
    let badframe1b: Vec<Tok> = {
        let mut c = frame(&[0x33]);
        let l = c.len();
        if c[l - 1] == 0x1b {
            c[l - 2] ^= 1;
        } else {
            c[l - 1] = 0x1b;
        }
        c.into_iter().map(Tok::B).collect()
    };
    let badesc1b: Vec<Tok> = START.iter().cloned().chain([0x1b, 0x1b, 0x1b, 0x1b, 0x02, 0x03, 0x04, 0x1b]).map(Tok::B).collect();
    let badesc1b3: Vec<Tok> = START.iter().cloned().chain([0x1b, 0x1b, 0x1b, 0x1b, 0x02, 0x1b, 0x1b, 0x1b]).map(Tok::B).collect();
    vec![
        ("afterinvmsg1b", badframe1b),
        ("afterinvesc1b", badesc1b),
        ("afterinvesc1b3", badesc1b3),
        ("new", vec![]),
        ("afterok", vec![Tok::Frame(vec![0x33])]),
        ("afterinvmsg", badframe),
        ("afterinvesc", badesc),
        ("afterreset", vec![Tok::Start, Tok::B(0x55), Tok::Rst]),
        ("afterfinalize", vec![Tok::Start, Tok::B(0x1b), Tok::Fin]),
        ("afterokreset", vec![Tok::Frame(vec![0x33]), Tok::Rst]),
        // reset / finalize called while the decoder is idle with noise or a partially matched start sequence pending
        ("noisepartialreset", vec![Tok::B(0x55), Tok::B(0x1b), Tok::B(0x1b), Tok::Rst]),
        ("partialstartfinalize", START[..6].iter().cloned().map(Tok::B).chain([Tok::Fin]).collect()),
        ("okthen1breset", vec![Tok::Frame(vec![0x33]), Tok::B(0x1b), Tok::B(0x1b), Tok::B(0x1b), Tok::Rst]),
        ("noisefinalize", vec![Tok::B(0x55), Tok::B(0x66), Tok::Fin]),
        ("startreset", vec![Tok::Start, Tok::Rst]),
        ("startfinalize", vec![Tok::Start, Tok::Fin]),
        ("noisestartreset", vec![Tok::B(0x55), Tok::Start, Tok::Rst]),
        // finalize / reset called inside a transmission while zero bytes are withheld (they must not leak into the next one)
        ("zerosfinalize", vec![Tok::Start, Tok::B(0x55), Tok::B(0), Tok::B(0), Tok::Fin]),
        ("zerosreset", vec![Tok::Start, Tok::B(0), Tok::B(0), Tok::B(0), Tok::B(0), Tok::B(0), Tok::Rst]),
        ("okzerosfinalize", vec![Tok::Frame(vec![0x33]), Tok::Start, Tok::B(0), Tok::Fin]),
    ]
}
