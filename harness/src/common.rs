//! Shared helpers: stimulus construction (never used as an oracle), PRNG, NDJSON output with de-duplication.
use std::collections::HashSet;
use std::hash::{Hash, Hasher};
use std::io::Write;

pub const START: [u8; 8] = [0x1b, 0x1b, 0x1b, 0x1b, 1, 1, 1, 1];

/// CRC-16/X.25, bitwise; used only to *build stimuli* (END tokens, frames, SML message checksums).
pub fn crc16(data: &[u8]) -> u16 {
    let mut c: u16 = 0xffff;
    for b in data {
        c ^= *b as u16;
        for _ in 0..8 {
            c = if c & 1 != 0 { (c >> 1) ^ 0x8408 } else { c >> 1 }
        }
    }
    !c
}

/// A transport-v1 frame for payload `p`, built by the harness itself so that stimuli do not depend on
/// the encoders under test. Monitors re-derive `Canonical(p)` in TLA+ wherever validity matters.
pub fn frame(p: &[u8]) -> Vec<u8> {
    let mut v = START.to_vec();
    let mut run = 0;
    for &b in p {
        v.push(b);
        if b == 0x1b {
            run += 1
        } else {
            run = 0
        }
        if run == 4 {
            v.extend([0x1b; 4]);
            run = 0;
        }
    }
    let pad = (4 - v.len() % 4) % 4;
    v.extend(std::iter::repeat(0).take(pad));
    v.extend([0x1b, 0x1b, 0x1b, 0x1b, 0x1a, pad as u8]);
    let c = crc16(&v);
    v.extend(c.to_le_bytes());
    v
}

#[derive(Clone, Debug, PartialEq)]
pub enum Tok {
    B(u8),
    Start,
    Esc4,
    /// End(pad, mode): mode 0 crc good for the last START, 1 good for the first START, 2 good for the whole stream, 3 bad
    End(u8, u8),
    /// Crc(mode): just the two checksum bytes (little endian) over everything since the last (0) / first (1) START
    Crc(u8),
    Frame(Vec<u8>),
    Fin,
    Rst,
}

pub const OP_FIN: u32 = 256;
pub const OP_RST: u32 = 257;

/// Expand tokens to ops (0..255 byte, 256 finalize, 257 reset).
pub fn expand(toks: &[Tok]) -> Vec<u32> {
    let mut s: Vec<u8> = vec![];
    let mut ops: Vec<u32> = vec![];
    let mut starts: Vec<usize> = vec![];
    for t in toks {
        let before = s.len();
        match t {
            Tok::B(b) => s.push(*b),
            Tok::Start => {
                starts.push(s.len());
                s.extend(START)
            }
            Tok::Esc4 => s.extend([0x1b; 4]),
            Tok::End(pad, mode) => {
                s.extend([0x1b, 0x1b, 0x1b, 0x1b, 0x1a, *pad]);
                let from = match mode {
                    0 => *starts.last().unwrap_or(&0),
                    1 => *starts.first().unwrap_or(&0),
                    _ => 0,
                };
                let mut c = crc16(&s[from..]);
                if *mode == 3 {
                    c = c.wrapping_add(1)
                }
                s.extend(c.to_le_bytes());
            }
            Tok::Crc(mode) => {
                let from = match mode {
                    0 => *starts.last().unwrap_or(&0),
                    _ => *starts.first().unwrap_or(&0),
                };
                let c = crc16(&s[from..]);
                s.extend(c.to_le_bytes());
            }
            Tok::Frame(p) => {
                starts.push(s.len());
                s.extend(frame(p))
            }
            Tok::Fin => ops.push(OP_FIN),
            Tok::Rst => ops.push(OP_RST),
        }
        ops.extend(s[before..].iter().map(|b| *b as u32));
    }
    ops
}

pub fn bytes_of(ops: &[u32]) -> Vec<u8> {
    ops.iter().filter(|o| **o < 256).map(|o| *o as u8).collect()
}

/// xorshift64* PRNG, seeded from VERIF_SEED
pub struct Rng(pub u64);
impl Rng {
    pub fn new(seed: u64) -> Self {
        Rng(seed.wrapping_mul(0x9E3779B97F4A7C15) | 1)
    }
    pub fn next(&mut self) -> u64 {
        let mut x = self.0;
        x ^= x >> 12;
        x ^= x << 25;
        x ^= x >> 27;
        self.0 = x;
        x.wrapping_mul(0x2545F4914F6CDD1D)
    }
    pub fn below(&mut self, n: usize) -> usize {
        if n == 0 {
            0
        } else {
            (self.next() % n as u64) as usize
        }
    }
    pub fn byte(&mut self) -> u8 {
        (self.next() >> 32) as u8
    }
    pub fn chance(&mut self, num: usize, den: usize) -> bool {
        self.below(den) < num
    }
    pub fn pick<'a, T>(&mut self, v: &'a [T]) -> &'a T {
        &v[self.below(v.len())]
    }
}

pub fn seed() -> u64 {
    std::env::var("VERIF_SEED").ok().and_then(|s| s.parse::<i64>().ok()).map(|x| x as u64).unwrap_or(1)
}

/// NDJSON sink with exact de-duplication of identical lines (by 128-bit hash of the line).
pub struct Sink {
    out: std::io::BufWriter<std::fs::File>,
    seen: HashSet<(u64, u64)>,
    pub raw: u64,
    pub distinct: u64,
    pub limit: u64,
    /// replay mode (env VF_REPLAY_NEEDLES = file with one needle per line): keep only the lines that contain every
    /// needle, i.e. the records of exactly the stimulus of a replay file
    pub needles: Option<Vec<String>>,
}
pub fn replay_needles() -> Option<Vec<String>> {
    std::env::var("VF_REPLAY_NEEDLES").ok().and_then(|p| std::fs::read_to_string(p).ok()).map(|t| t.lines().filter(|l| !l.is_empty()).map(|l| l.to_string()).collect())
}
impl Sink {
    pub fn create(path: &str) -> Self {
        Sink { out: std::io::BufWriter::new(std::fs::File::create(path).expect("create out")), seen: HashSet::new(), raw: 0, distinct: 0, limit: std::env::var("VF_LIMIT").ok().and_then(|v| v.parse().ok()).unwrap_or(u64::MAX), needles: replay_needles() }
    }
    pub fn put(&mut self, line: String) -> bool {
        self.raw += 1;
        if let Some(ns) = &self.needles {
            if !ns.iter().all(|n| line.contains(n.as_str())) {
                return false;
            }
        }
        let mut h1 = std::collections::hash_map::DefaultHasher::new();
        line.hash(&mut h1);
        let mut h2 = std::collections::hash_map::DefaultHasher::new();
        (0x5bd1e995u32, &line).hash(&mut h2);
        if !self.seen.insert((h1.finish(), h2.finish())) {
            return false;
        }
        self.distinct += 1;
        self.out.write_all(line.as_bytes()).unwrap();
        self.out.write_all(b"\n").unwrap();
        if self.distinct >= self.limit {
            // VF_LIMIT (used by the negative controls of `vf setup`): enough records, stop the whole enumeration
            self.out.flush().unwrap();
            println!("{{\"family\":\"limited\",\"raw\":{},\"distinct\":{}}}", self.raw, self.distinct);
            std::process::exit(0);
        }
        true
    }
    pub fn finish(mut self) -> (u64, u64) {
        self.out.flush().unwrap();
        (self.raw, self.distinct)
    }
}

pub fn jarr<T: std::fmt::Display>(v: &[T]) -> String {
    let mut s = String::with_capacity(v.len() * 4 + 2);
    s.push('[');
    for (i, x) in v.iter().enumerate() {
        if i > 0 {
            s.push(',');
        }
        s.push_str(&x.to_string());
    }
    s.push(']');
    s
}

pub fn jarr2(v: &[Vec<i64>]) -> String {
    let mut s = String::from("[");
    for (i, x) in v.iter().enumerate() {
        if i > 0 {
            s.push(',');
        }
        s.push_str(&jarr(x));
    }
    s.push(']');
    s
}

pub fn hex(s: &str) -> Vec<u8> {
    let s: String = s.chars().filter(|c| c.is_ascii_hexdigit()).collect();
    (0..s.len() / 2).map(|i| u8::from_str_radix(&s[2 * i..2 * i + 2], 16).unwrap()).collect()
}

/// all sequences over `alpha` of length exactly `len`, by index
pub fn seq_by_index(alpha: &[u8], len: usize, mut idx: usize) -> Vec<u8> {
    let mut v = Vec::with_capacity(len);
    for _ in 0..len {
        v.push(alpha[idx % alpha.len()]);
        idx /= alpha.len();
    }
    v
}

/// The payloads decoded from the libsml-testing corpus of the repository (frames located by the harness' own scan).
pub fn corpus_files() -> Vec<(String, Vec<u8>)> {
    let mut v = vec![];
    if let Ok(rd) = std::fs::read_dir("/repo/tests/libsml-testing") {
        for e in rd.flatten() {
            let p = e.path();
            if p.extension().and_then(|x| x.to_str()) == Some("bin") {
                if let Ok(b) = std::fs::read(&p) {
                    v.push((p.file_name().unwrap().to_string_lossy().to_string(), b));
                }
            }
        }
    }
    v.sort();
    v
}

/// Split a dump into transport frames with the harness' own scanner (start sequence .. aligned end sequence),
/// returning (frame bytes, un-escaped payload). Independent of the decoder under test.
pub fn scan_frames(b: &[u8]) -> Vec<(Vec<u8>, Vec<u8>)> {
    let mut out = vec![];
    let mut pos = 0;
    while pos + 8 <= b.len() {
        if b[pos..pos + 8] != START {
            pos += 1;
            continue;
        }
        // walk escaped body
        let mut i = pos + 8;
        let mut payload = vec![];
        let mut done = None;
        while i < b.len() {
            if i + 4 <= b.len() && b[i..i + 4] == [0x1b; 4] && (i - pos) % 4 == 0 {
                if i + 8 > b.len() {
                    break;
                }
                if b[i + 4..i + 8] == [0x1b; 4] {
                    payload.extend([0x1b; 4]);
                    i += 8;
                    continue;
                }
                if b[i + 4] == 0x1a {
                    done = Some(i + 8);
                    let pad = b[i + 5] as usize;
                    if pad <= 3 && pad <= payload.len() {
                        payload.truncate(payload.len() - pad);
                    }
                    break;
                }
                break;
            }
            payload.push(b[i]);
            i += 1;
        }
        match done {
            Some(e) => {
                let fr = b[pos..e].to_vec();
                if frame(&payload) == fr {
                    out.push((fr, payload));
                }
                pos = e;
            }
            None => pos += 1,
        }
    }
    out
}

pub fn corpus_payloads() -> Vec<Vec<u8>> {
    let mut v: Vec<Vec<u8>> = vec![];
    for (_, b) in corpus_files() {
        for (_, p) in scan_frames(&b) {
            v.push(p);
        }
    }
    v.sort();
    v.dedup();
    v
}
