//! Record emitters for the parser properties (C03 C04 C06 C09 C12 C13).
use crate::common::*;
use crate::pf::*;
use crate::ps::*;
use crate::tr2::KeyedSink;
use std::panic::{catch_unwind, AssertUnwindSafe};

fn h64(x: &[u8]) -> u64 {
    use std::hash::{Hash, Hasher};
    let mut h = std::collections::hash_map::DefaultHasher::new();
    x.hash(&mut h);
    h.finish()
}

/// both parsers on x, panics as data: (complete result json, events json, items, after, hit_limit)
pub fn run_both(x: &[u8]) -> (String, String, usize, usize, bool) {
    let r = run_both_ex(x);
    (r.0, r.1, r.2, r.3, r.4)
}
pub fn run_both_ex(x: &[u8]) -> (String, String, usize, usize, bool, bool) {
    let c = match catch_unwind(AssertUnwindSafe(|| complete_result(x))) {
        Ok(s) => s,
        Err(_) => "[8]".to_string(),
    };
    let (ev, items, after, hit, last_err) = match catch_unwind(AssertUnwindSafe(|| stream_result_ex(x, x.len() + 8, 5))) {
        Ok(r) => r,
        Err(_) => ("[[8]]".to_string(), 1, 0, false, true),
    };
    (c, ev, items, after, hit, last_err)
}

/// C04 / C09 / C13 from the shared input families.
pub fn cmd_parser(tier: &str, out: &str, which: &str) {
    crate::fe::quiet_panics();
    let mut rng = Rng::new(seed());
    let mut ks = KeyedSink::create(out);
    let mut inputs = 0u64;
    let mut oks = 0u64;
    let sample_den: u64 = if tier == "thorough" { 2 } else { 24 };
    parser_inputs(tier, &mut rng, &mut |x, class| {
        inputs += 1;
        let (c, ev, items, after, hit, last_err) = run_both_ex(x);
        let ok = c.starts_with("[1,");
        if ok {
            oks += 1;
        }
        match which {
            "c04" => {
                // every accepted input of the structural classes, a hash sample of accepted data corruptions,
                // and a small sample of rejected inputs (reported as drift only; they cannot violate C04)
                let stream_ok = !ev.contains("[0,") && !ev.contains("[8]");
                let take = if ok || stream_ok { class != 2 && class != 5 || h64(x) % sample_den == 0 } else { h64(x) % (sample_den * 40) == 0 };
                if take {
                    let key = format!("{:?}", x);
                    ks.put(&key, || format!("{{\"x\":{},\"c\":{},\"ev\":{}}}", jarr(x), c, ev));
                }
            }
            "c09" => {
                let take = if ok { class != 2 && class != 5 || h64(x) % sample_den == 0 } else { class == 1 || class == 4 || h64(x) % (sample_den / 2).max(1) == 0 };
                if take {
                    let key = format!("{}|{}|{}", c, ev, hit);
                    ks.put(&key, || format!("{{\"x\":{},\"c\":{},\"ev\":{},\"hit\":{}}}", jarr(x), c, ev, hit as u8));
                }
            }
            "c13" => {
                // positions of error items among the items (recording stops at the first error)
                let errs: Vec<usize> = if last_err { vec![items] } else { vec![] };
                let key = format!("{}|{}|{}|{}|{:?}", x.len(), items, after, hit, errs);
                ks.put(&key, || format!("{{\"n\":{},\"items\":{},\"after\":{},\"hit\":{},\"errs\":{},\"x\":{}}}", x.len(), items, after, hit as u8, jarr(&errs), jarr(x)));
            }
            _ => panic!("unknown"),
        }
    });
    ks.finish(which, &format!(",\"inputs\":{},\"accepted\":{}", inputs, oks));
}

/// C03: valid files (generated with every encoding choice, with the generator's intent `f`; and the corpus payloads)
pub fn cmd_c03(tier: &str, out: &str) {
    crate::fe::quiet_panics();
    let mut rng = Rng::new(seed());
    let mut ks = KeyedSink::create(out);
    let n = if tier == "thorough" { 40000 } else { 4000 };
    for k in 0..n {
        let mut g = Gen { rng: &mut rng, nonminimal: k % 3 != 0, in_opt: false };
        let (x, f) = g.file();
        let (c, ev, _, _, hit) = run_both(&x);
        ks.put(&format!("{:?}", x), || format!("{{\"x\":{},\"f\":[{}],\"c\":{},\"ev\":{},\"hit\":{}}}", jarr(&x), f, c, ev, hit as u8));
    }
    for x in corpus_payloads() {
        let (c, ev, _, _, hit) = run_both(&x);
        ks.put(&format!("{:?}", x), || format!("{{\"x\":{},\"f\":[],\"c\":{},\"ev\":{},\"hit\":{}}}", jarr(&x), c, ev, hit as u8));
        // concatenations and message-boundary truncations of valid files are valid files
        for (_, _, e) in message_spans(&x) {
            let y = &x[..e];
            let (c, ev, _, _, hit) = run_both(y);
            ks.put(&format!("{:?}", y), || format!("{{\"x\":{},\"f\":[],\"c\":{},\"ev\":{},\"hit\":{}}}", jarr(y), c, ev, hit as u8));
        }
    }
    ks.finish("c03", "");
}

/// C12: type-length fields and primitives at every observable position of a message template, seen through the
/// streaming parser (fields are visible before the message CRC is checked): {"x":bytes,"ev":events}
pub fn cmd_c12(tier: &str, out: &str) {
    crate::fe::quiet_panics();
    let mut ks = KeyedSink::create(out);
    let thorough = tier == "thorough";
    // templates: (prefix, suffix) around the field under test
    let list_head = hex("76 02AA 6200 6200 72 630701 77 01 02BB 01 01");
    let entry_head = hex("76 02AA 6200 6200 72 630701 77 01 02BB 01 01 71 77 02CC 01 01 01 01"); // ... value, then signature
    let templates: Vec<(&str, Vec<u8>, Vec<u8>)> = vec![
        ("tid", hex("76"), hex("6200 6200 72 630201 71 01 630000 00")),
        ("listlen", list_head.clone(), hex("01 01 630000 00")),
        ("value", entry_head.clone(), hex("01 01 01 630000 00")),
        ("status", hex("76 02AA 6200 6200 72 630701 77 01 02BB 01 01 71 77 02CC"), hex("01 01 01 6201 01 01 01 630000 00")),
        ("scaler", hex("76 02AA 6200 6200 72 630701 77 01 02BB 01 01 71 77 02CC 01 01 01"), hex("6201 01 01 01 630000 00")),
        ("time", hex("76 02AA 6200 6200 72 630701 77 01 02BB 01"), hex("71 77 02CC 01 01 01 01 6201 01 01 01 630000 00")),
        ("group", hex("76 02AA"), hex("6200 72 630201 71 01 630000 00")),
        ("tag", hex("76 02AA 6200 6200 72"), hex("71 01 630000 00")),
    ];
    let mut fields: Vec<Vec<u8>> = vec![];
    // every TLF of 1 byte and of 2 bytes followed by up to `room` data bytes
    let data: Vec<u8> = (0..40).map(|i| [0x80u8, 0x7f, 0x00, 0xff, 0x01, 0xfe, 0x81, 0x55][i % 8]).collect();
    for b0 in 0..=255u8 {
        fields.push([vec![b0], data[..20].to_vec()].concat());
        fields.push(vec![b0]);
        fields.push([vec![b0], data[..1].to_vec()].concat());
        let step = if thorough { 1 } else { 1 };
        let mut b1 = 0u16;
        while b1 <= 255 {
            fields.push([vec![b0, b1 as u8], data.clone()].concat());
            b1 += step;
        }
    }
    // 3-byte TLFs: exhaustive in thorough, strided sample in quick
    for b0 in [0x80u8, 0x81, 0x8f, 0xd0, 0xd1, 0xe0, 0xe8, 0xf0, 0xf1, 0xff, 0xc1, 0x90] {
        for b1 in (0..=255u16).step_by(if thorough { 1 } else { 17 }) {
            for b2 in (0..=255u16).step_by(if thorough { 1 } else { 5 }) {
                fields.push([vec![b0, b1 as u8, b2 as u8], data[..24].to_vec()].concat());
            }
        }
    }
    // crafted 4..12-byte TLFs around 2^32 and around the own-size subtraction
    for ty in [0x00u8, 0x50, 0x60, 0x70, 0x40] {
        for n in 4..=12usize {
            for first in [0u8, 1, 0xf] {
                for fill in [0u8, 0xf] {
                    for last in [0u8, 1, 2, 0xb, 0xf] {
                        let mut t = vec![0x80 | ty | first];
                        for _ in 0..n - 2 {
                            t.push(0x80 | fill);
                        }
                        t.push(last);
                        fields.push([t, data[..16].to_vec()].concat());
                    }
                }
            }
        }
    }
    // integers: widths 1..8 x leading byte patterns x signedness
    for ty in [0x50u8, 0x60] {
        for w in 0..=9usize {
            for lead in [0x00u8, 0x01, 0x7f, 0x80, 0x81, 0xfe, 0xff] {
                for rest in [0x00u8, 0xff, 0x5a] {
                    let mut t = vec![ty | (w as u8 + 1)];
                    if w > 0 {
                        t.push(lead);
                        t.extend(std::iter::repeat(rest).take(w - 1));
                    }
                    fields.push(t);
                }
            }
        }
    }
    // booleans
    for b in 0..=255u8 {
        fields.push(vec![0x42, b]);
    }
    let mut n = 0u64;
    for (_, pre, suf) in &templates {
        for fld in &fields {
            n += 1;
            let mut x = pre.clone();
            x.extend(fld);
            x.extend(suf);
            let (ev, _, _, _) = match catch_unwind(AssertUnwindSafe(|| stream_result(&x, x.len() + 8, 0))) {
                Ok(r) => r,
                Err(_) => ("[[8]]".to_string(), 1, 0, false),
            };
            let c = match catch_unwind(AssertUnwindSafe(|| complete_result(&x))) {
                Ok(s) => s,
                Err(_) => "[8]".to_string(),
            };
            ks.put(&format!("{:?}", x), || format!("{{\"x\":{},\"ev\":{},\"c\":{}}}", jarr(&x), ev, c));
        }
    }
    ks.finish("c12", &format!(",\"cases\":{}", n));
}

/// C06 worker: reads cases (hex lines) from a file starting at line `from`, prints one result line per case:
///   idx <outcome complete> <outcome stream> <count> <max> <total> <stream allocs>
/// outcome: 1 value, 0 error, 8 panic, 12 runaway. The parent detects aborts / hangs by the missing line.
pub fn cmd_c06_worker(cases: &str, from: usize) {
    use std::io::Write;
    crate::fe::quiet_panics();
    let text = std::fs::read_to_string(cases).expect("cases");
    let stdout = std::io::stdout();
    for (idx, line) in text.lines().enumerate().skip(from) {
        let x = hex(line);
        {
            let mut o = stdout.lock();
            writeln!(o, "BEGIN {}", idx).unwrap();
            o.flush().unwrap();
        }
        crate::alloc::start();
        let c = catch_unwind(AssertUnwindSafe(|| sml_rs::parser::complete::parse(&x).is_ok()));
        let (cnt, max, total) = crate::alloc::stop();
        crate::alloc::start();
        let s = catch_unwind(AssertUnwindSafe(|| {
            let mut p = sml_rs::parser::streaming::Parser::new(&x);
            let mut items = 0usize;
            let mut err = false;
            loop {
                match p.next() {
                    None => break,
                    Some(Err(_)) => {
                        err = true;
                        items += 1
                    }
                    Some(Ok(_)) => items += 1,
                }
                if items > x.len() + 8 {
                    return 12;
                }
            }
            if err {
                0
            } else {
                1
            }
        }));
        let (scnt, _, _) = crate::alloc::stop();
        let co = match c {
            Ok(true) => 1,
            Ok(false) => 0,
            Err(_) => 8,
        };
        let so = match s {
            Ok(v) => v,
            Err(_) => 8,
        };
        let mut o = stdout.lock();
        writeln!(o, "DONE {} {} {} {} {} {} {}", idx, co, so, cnt, max, total, scnt).unwrap();
        o.flush().unwrap();
    }
}

/// C06 parent: writes the case file, drives workers with a watchdog, emits {"n":|x|,"co":..,"so":..,"a":[count,max,total],"sa":stream allocs,"x":x}
pub fn cmd_c06(tier: &str, out: &str) {
    use std::io::{BufRead, BufReader, Write};
    use std::process::{Command, Stdio};
    let mut rng = Rng::new(seed());
    let mut cases: Vec<Vec<u8>> = vec![];
    let mut seen = std::collections::HashSet::new();
    let den: u64 = if tier == "thorough" { 4 } else { 40 };
    parser_inputs(tier, &mut rng, &mut |x, class| {
        // all bombs and structural edits, a sample of the rest
        if class == 4 || class == 1 && h64(x) % 4 == 0 || class == 0 || h64(x) % den == 0 {
            if seen.insert(h64(x)) {
                cases.push(x.to_vec());
            }
        }
    });
    let cpath = format!("{}.cases", out);
    {
        let mut f = std::io::BufWriter::new(std::fs::File::create(&cpath).unwrap());
        for c in &cases {
            let s: String = c.iter().map(|b| format!("{:02x}", b)).collect();
            writeln!(f, "{}", s).unwrap();
        }
    }
    let exe = std::env::current_exe().unwrap();
    let mut results: Vec<Option<String>> = vec![None; cases.len()];
    let mut from = 0usize;
    let mut restarts = 0;
    while from < cases.len() {
        let mut child = Command::new(&exe).args(["c06-worker", &cpath, &from.to_string()]).stdout(Stdio::piped()).stderr(Stdio::null()).spawn().expect("spawn worker");
        let stdout = child.stdout.take().unwrap();
        let (tx, rx) = std::sync::mpsc::channel::<String>();
        let th = std::thread::spawn(move || {
            for l in BufReader::new(stdout).lines().flatten() {
                if tx.send(l).is_err() {
                    break;
                }
            }
        });
        let mut current: Option<usize> = None;
        let mut died = true;
        loop {
            match rx.recv_timeout(std::time::Duration::from_secs(20)) {
                Ok(l) => {
                    let p: Vec<&str> = l.split_whitespace().collect();
                    if p[0] == "BEGIN" {
                        current = Some(p[1].parse().unwrap());
                    } else if p[0] == "DONE" {
                        let idx: usize = p[1].parse().unwrap();
                        results[idx] = Some(format!("\"co\":{},\"so\":{},\"a\":[{},{},{}],\"sa\":{}", p[2], p[3], p[4], p[5], p[6], p[7]));
                        current = None;
                        from = idx + 1;
                    }
                }
                Err(std::sync::mpsc::RecvTimeoutError::Timeout) => {
                    // hang: kill the worker; the case in flight is a "hang"
                    let _ = child.kill();
                    if let Some(idx) = current {
                        results[idx] = Some("\"co\":13,\"so\":13,\"a\":[0,0,0],\"sa\":0".to_string());
                        from = idx + 1;
                    }
                    died = true;
                    break;
                }
                Err(_) => {
                    // worker exited
                    if let Some(idx) = current {
                        results[idx] = Some("\"co\":9,\"so\":9,\"a\":[0,0,0],\"sa\":0".to_string()); // abort in flight
                        from = idx + 1;
                    } else {
                        died = false;
                    }
                    break;
                }
            }
        }
        let _ = child.wait();
        let _ = th.join();
        if !died && current.is_none() {
            break;
        }
        restarts += 1;
        if restarts > 5000 {
            break;
        }
    }
    let _ = std::fs::remove_file(&cpath);
    let mut ks = KeyedSink::create(out);
    for (i, c) in cases.iter().enumerate() {
        let r = results[i].clone().unwrap_or_else(|| "\"co\":14,\"so\":14,\"a\":[0,0,0],\"sa\":0".to_string());
        let key = format!("{}|{}", c.len(), r);
        ks.put(&key, || format!("{{\"n\":{},{},\"x\":{}}}", c.len(), r, jarr(c)));
    }
    ks.finish("c06", &format!(",\"cases\":{},\"worker_restarts\":{}", cases.len(), restarts));
}
