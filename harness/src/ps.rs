//! Canonical JSON dump of parser results (shape documented in spec/SmlGrammar.tla and spec/StreamParser.tla).
use crate::common::jarr;
use sml_rs::parser::common::*;
use sml_rs::parser::{complete, streaming, ParseError, TlfParseError};

pub fn err_code(e: &ParseError) -> (i64, i64) {
    match e {
        ParseError::LeftoverInput => (1, 0),
        ParseError::UnexpectedEOF => (2, 0),
        ParseError::InvalidTlf(t) => (
            3,
            match t {
                TlfParseError::TlfLengthOverflow => 1,
                TlfParseError::TlfReserved => 2,
                TlfParseError::TlfLengthUnderflow => 3,
                TlfParseError::TlfNextByteTypeMismatch => 4,
                TlfParseError::TlfInvalidTy => 5,
            },
        ),
        ParseError::TlfMismatch(_) => (4, 0),
        ParseError::CrcMismatch => (5, 0),
        ParseError::MsgEndMismatch => (6, 0),
        ParseError::UnexpectedVariant => (7, 0),
    }
}
pub fn err_json(e: &ParseError) -> String {
    let (k, s) = err_code(e);
    format!("[0,{},{}]", k, s)
}
fn ob(b: &Option<&[u8]>) -> String {
    match b {
        None => "[]".into(),
        Some(x) => format!("[{}]", jarr(x)),
    }
}
fn time(t: &Time) -> String {
    match t {
        Time::SecIndex(x) => jarr(&x.to_be_bytes()),
    }
}
fn otime(t: &Option<Time>) -> String {
    match t {
        None => "[]".into(),
        Some(t) => format!("[{}]", time(t)),
    }
}
fn onum<T: std::fmt::Display>(x: &Option<T>) -> String {
    match x {
        None => "[]".into(),
        Some(v) => format!("[{}]", v),
    }
}
fn status(s: &Option<Status>) -> String {
    match s {
        None => "[]".into(),
        Some(Status::Status8(x)) => format!("[[8,{}]]", jarr(&x.to_be_bytes())),
        Some(Status::Status16(x)) => format!("[[16,{}]]", jarr(&x.to_be_bytes())),
        Some(Status::Status32(x)) => format!("[[32,{}]]", jarr(&x.to_be_bytes())),
        Some(Status::Status64(x)) => format!("[[64,{}]]", jarr(&x.to_be_bytes())),
    }
}
fn value(v: &Value) -> String {
    match v {
        Value::Bool(b) => format!("[0,{}]", *b as u8),
        Value::Bytes(x) => format!("[1,{}]", jarr(x)),
        Value::I8(x) => format!("[2,8,{}]", jarr(&x.to_be_bytes())),
        Value::I16(x) => format!("[2,16,{}]", jarr(&x.to_be_bytes())),
        Value::I32(x) => format!("[2,32,{}]", jarr(&x.to_be_bytes())),
        Value::I64(x) => format!("[2,64,{}]", jarr(&x.to_be_bytes())),
        Value::U8(x) => format!("[3,8,{}]", jarr(&x.to_be_bytes())),
        Value::U16(x) => format!("[3,16,{}]", jarr(&x.to_be_bytes())),
        Value::U32(x) => format!("[3,32,{}]", jarr(&x.to_be_bytes())),
        Value::U64(x) => format!("[3,64,{}]", jarr(&x.to_be_bytes())),
        Value::List(ListType::Time(t)) => format!("[4,{}]", time(t)),
    }
}
pub fn entry(e: &ListEntry) -> String {
    format!("[{},{},{},{},{},{},{}]", jarr(e.obj_name), status(&e.status), otime(&e.val_time), onum(&e.unit), onum(&e.scaler), value(&e.value), ob(&e.value_signature))
}
fn open(r: &OpenResponse) -> String {
    format!("[1,{},{},{},{},{},{}]", ob(&r.codepage), ob(&r.client_id), jarr(r.req_file_id), jarr(r.server_id), otime(&r.ref_time), onum(&r.sml_version))
}
fn close(r: &CloseResponse) -> String {
    format!("[2,{}]", ob(&r.global_signature))
}
pub fn file(f: &complete::File) -> String {
    let mut ms = vec![];
    for m in &f.messages {
        let body = match &m.message_body {
            complete::MessageBody::OpenResponse(r) => open(r),
            complete::MessageBody::CloseResponse(r) => close(r),
            complete::MessageBody::GetListResponse(r) => {
                let es: Vec<String> = r.val_list.iter().map(entry).collect();
                format!("[7,{},{},{},{},[{}],{},{}]", ob(&r.client_id), jarr(r.server_id), ob(&r.list_name), otime(&r.act_sensor_time), es.join(","), ob(&r.list_signature), otime(&r.act_gateway_time))
            }
        };
        ms.push(format!("[{},{},{},{}]", jarr(m.transaction_id), m.group_no, m.abort_on_error, body));
    }
    format!("[{}]", ms.join(","))
}
pub fn complete_result(x: &[u8]) -> String {
    match complete::parse(x) {
        Ok(f) => format!("[1,{}]", file(&f)),
        Err(e) => err_json(&e),
    }
}
pub fn event(e: &Result<streaming::ParseEvent, ParseError>) -> String {
    match e {
        Err(e) => err_json(e),
        Ok(streaming::ParseEvent::MessageStart(m)) => {
            let body = match &m.message_body {
                streaming::MessageBody::OpenResponse(r) => open(r),
                streaming::MessageBody::CloseResponse(r) => close(r),
                streaming::MessageBody::GetListResponse(r) => format!(
                    "[7,{},{},{},{},[{},{}]]",
                    ob(&r.client_id),
                    jarr(r.server_id),
                    ob(&r.list_name),
                    otime(&r.act_sensor_time),
                    r.num_vals >> 16,
                    r.num_vals & 0xffff
                ),
            };
            format!("[1,{},{},{},{}]", jarr(m.transaction_id), m.group_no, m.abort_on_error, body)
        }
        Ok(streaming::ParseEvent::ListEntry(le)) => format!("[2,{}]", entry(le)),
        Ok(streaming::ParseEvent::GetListResponseEnd(g)) => format!("[3,{},{}]", ob(&g.list_signature), otime(&g.act_gateway_time)),
    }
}
/// Iterate the streaming parser: items until the first None (at most `limit`), then `extra` more calls.
/// Returns (events json, items, number of Some among the extra calls, hit_limit); `last_is_err` via stream_result_ex
pub fn stream_result(x: &[u8], limit: usize, extra: usize) -> (String, usize, usize, bool) {
    let r = stream_result_ex(x, limit, extra);
    (r.0, r.1, r.2, r.3)
}
pub fn stream_result_ex(x: &[u8], limit: usize, extra: usize) -> (String, usize, usize, bool, bool) {
    let mut p = streaming::Parser::new(x);
    let mut evs: Vec<String> = vec![];
    let mut hit = false;
    let mut last_err = false;
    loop {
        if evs.len() >= limit {
            hit = true;
            break;
        }
        match p.next() {
            None => break,
            Some(e) => {
                let is_err = e.is_err();
                evs.push(event(&e));
                if is_err {
                    last_err = true;
                    break; // whatever comes after the first error is counted by `after`
                }
            }
        }
    }
    let mut after = 0;
    for _ in 0..extra {
        if p.next().is_some() {
            after += 1;
        }
    }
    (format!("[{}]", evs.join(",")), evs.len(), after, hit, last_err)
}
