//! C11 (I/O fault schedules) and C10 (end to end) through SmlReader.
use crate::common::*;
use crate::fe::*;
use crate::tr2::KeyedSink;
use sml_rs::parser::streaming::Parser;
use sml_rs::parser::complete::File;
use sml_rs::transport::ReadDecodedError;
use sml_rs::util::ByteSourceErr;
use sml_rs::{DecodedBytes, ReadParsedError, SmlReader};
use std::cell::Cell;
use std::collections::VecDeque;
use std::io::{Error, ErrorKind, Read};
use std::panic::{catch_unwind, AssertUnwindSafe};
use std::rc::Rc;

pub const WB: u32 = 300;
pub const INT: u32 = 301;
pub const OTH: u32 = 302;

/// io::Read that follows a schedule of bytes and faults; counts delivered bytes
pub struct FaultyRead {
    q: VecDeque<u32>,
    n: Rc<Cell<usize>>,
    salt: usize,
}
impl Read for FaultyRead {
    fn read(&mut self, buf: &mut [u8]) -> std::io::Result<usize> {
        if buf.is_empty() {
            return Ok(0);
        }
        match self.q.pop_front() {
            None => Ok(0),
            Some(WB) => Err(Error::new(ErrorKind::WouldBlock, "wb")),
            Some(INT) => Err(Error::new(ErrorKind::Interrupted, "int")),
            Some(OTH) => {
                // "any other read error": rotate through the error kinds a real source can report (everything except
                // WouldBlock / Interrupted, which are modelled separately, and UnexpectedEof, which *is* end of input)
                const KINDS: [ErrorKind; 16] = [
                    ErrorKind::Other, ErrorKind::TimedOut, ErrorKind::BrokenPipe, ErrorKind::ConnectionReset, ErrorKind::ConnectionAborted,
                    ErrorKind::NotConnected, ErrorKind::InvalidData, ErrorKind::InvalidInput, ErrorKind::PermissionDenied, ErrorKind::NotFound,
                    ErrorKind::ConnectionRefused, ErrorKind::AddrInUse, ErrorKind::AlreadyExists, ErrorKind::WriteZero, ErrorKind::Unsupported,
                    ErrorKind::OutOfMemory,
                ];
                let k = KINDS[(self.n.get() + self.q.len() + self.salt) % KINDS.len()];
                Err(Error::new(k, "oth"))
            }
            Some(b) => {
                buf[0] = b as u8;
                self.n.set(self.n.get() + 1);
                Ok(1)
            }
        }
    }
}

fn ev_read<E: ByteSourceErr>(pos: i64, r: Result<&[u8], ReadDecodedError<E>>) -> Ev {
    match r {
        Ok(m) => ev_ok(pos, m),
        Err(e) => ev_of_read_err(pos, &e),
    }
}

/// repeated calls of one API (0 next, 1 read, 2 next_nb, 3 read_nb) until the end of input was signalled 3 times in a row
pub fn run_faulty(items: &[u32], api: u8) -> Vec<Ev> {
    match catch_unwind(AssertUnwindSafe(|| {
        let n = Rc::new(Cell::new(0usize));
        let mut r = SmlReader::with_vec_buffer().from_reader(FaultyRead { q: items.iter().cloned().collect(), n: n.clone(), salt: (api as usize) * 5 + crate::common::seed() as usize });
        let mut out: Vec<Ev> = vec![];
        let mut ends = 0;
        let mut calls = 0;
        while ends < 3 {
            calls += 1;
            if calls > items.len() + 12 {
                out.push(vec![n.get() as i64, 12]);
                break;
            }
            let e: Ev = match api {
                0 => match r.next::<DecodedBytes>() {
                    None => vec![n.get() as i64, 10],
                    Some(x) => ev_read(n.get() as i64, x),
                },
                1 => {
                    let x = r.read::<DecodedBytes>();
                    ev_read(n.get() as i64, x)
                }
                2 => match r.next_nb::<DecodedBytes>() {
                    Ok(None) => vec![n.get() as i64, 10],
                    Ok(Some(m)) => ev_ok(n.get() as i64, m),
                    Err(nb::Error::WouldBlock) => vec![n.get() as i64, 13],
                    Err(nb::Error::Other(e)) => ev_of_read_err(n.get() as i64, &e),
                },
                _ => match r.read_nb::<DecodedBytes>() {
                    Ok(m) => ev_ok(n.get() as i64, m),
                    Err(nb::Error::WouldBlock) => vec![n.get() as i64, 13],
                    Err(nb::Error::Other(e)) => ev_of_read_err(n.get() as i64, &e),
                },
            };
            let is_end = e[1] == 10 || ((api == 1 || api == 3) && e[1] == 9 && e[2] == 0);
            ends = if is_end { ends + 1 } else { 0 };
            out.push(e);
        }
        out
    })) {
        Ok(v) => v,
        Err(_) => vec![vec![-1, 8]],
    }
}

/// embedded-hal 0.2 serial source following a schedule: bytes, WB -> nb::Error::WouldBlock, OTH -> nb::Error::Other(code);
/// an exhausted schedule keeps answering WouldBlock (a serial line has no end of input)
pub struct EhSrc {
    q: VecDeque<u32>,
    n: Rc<Cell<usize>>,
    exhausted: Rc<Cell<usize>>,
}
impl embedded_hal_02::serial::Read<u8> for EhSrc {
    type Error = u16;
    fn read(&mut self) -> nb::Result<u8, u16> {
        loop {
            match self.q.pop_front() {
                None => {
                    self.exhausted.set(self.exhausted.get() + 1);
                    return Err(nb::Error::WouldBlock);
                }
                Some(WB) => return Err(nb::Error::WouldBlock),
                Some(INT) => continue, // no such thing on this interface
                Some(OTH) => return Err(nb::Error::Other(0x0bad)),
                Some(b) => {
                    self.n.set(self.n.get() + 1);
                    return Ok(b as u8);
                }
            }
        }
    }
}

/// repeated calls through SmlReader::from_eh_reader until the exhausted source has answered WouldBlock twice
pub fn run_faulty_eh(items: &[u32], api: u8) -> Vec<Ev> {
    match catch_unwind(AssertUnwindSafe(|| {
        let n = Rc::new(Cell::new(0usize));
        let ex = Rc::new(Cell::new(0usize));
        let mut r = SmlReader::with_vec_buffer().from_eh_reader(EhSrc { q: items.iter().cloned().collect(), n: n.clone(), exhausted: ex.clone() });
        let mut out: Vec<Ev> = vec![];
        let mut calls = 0;
        while ex.get() < 2 {
            calls += 1;
            if calls > items.len() + 12 {
                out.push(vec![n.get() as i64, 12]);
                break;
            }
            let e: Ev = match api {
                0 => match r.next::<DecodedBytes>() {
                    None => vec![n.get() as i64, 10],
                    Some(x) => ev_read(n.get() as i64, x),
                },
                1 => {
                    let x = r.read::<DecodedBytes>();
                    ev_read(n.get() as i64, x)
                }
                2 => match r.next_nb::<DecodedBytes>() {
                    Ok(None) => vec![n.get() as i64, 10],
                    Ok(Some(m)) => ev_ok(n.get() as i64, m),
                    Err(nb::Error::WouldBlock) => vec![n.get() as i64, 13],
                    Err(nb::Error::Other(e)) => ev_of_read_err(n.get() as i64, &e),
                },
                _ => match r.read_nb::<DecodedBytes>() {
                    Ok(m) => ev_ok(n.get() as i64, m),
                    Err(nb::Error::WouldBlock) => vec![n.get() as i64, 13],
                    Err(nb::Error::Other(e)) => ev_of_read_err(n.get() as i64, &e),
                },
            };
            out.push(e);
        }
        out
    })) {
        Ok(v) => v,
        Err(_) => vec![vec![-1, 8]],
    }
}

fn fault_record_eh(ks: &mut KeyedSink, items: &[u32], api: u8) {
    let items: Vec<u32> = items.iter().cloned().filter(|x| *x != INT).collect();
    let res = run_faulty_eh(&items, api);
    let bytes: Vec<u32> = items.iter().cloned().filter(|x| *x < 256).collect();
    let clean = run_faulty_eh(&bytes, api);
    let fresh = match items.iter().position(|x| *x == OTH) {
        Some(io) => run_faulty_eh(&items[io + 1..], api),
        None => run_faulty_eh(&[], api),
    };
    let key = format!("eh{}|{:?}", api, items);
    ks.put(&key, || format!("{{\"eh\":1,\"items\":{},\"api\":{},\"res\":{},\"clean\":{},\"fresh\":{}}}", jarr(&items), api, jarr2(&res), jarr2(&clean), jarr2(&fresh)));
}

fn fault_record(ks: &mut KeyedSink, items: &[u32], api: u8) {
    if items.len() % 3 == 0 || items.len() < 12 {
        // the embedded-hal source on a third of the schedules (and on all the short ones)
        fault_record_eh(ks, items, api);
    }
    let res = run_faulty(items, api);
    let bytes: Vec<u32> = items.iter().cloned().filter(|x| *x < 256).collect();
    let clean = run_faulty(&bytes, api);
    let fresh = match items.iter().position(|x| *x == OTH) {
        Some(io) => run_faulty(&items[io + 1..], api),
        None => run_faulty(&[], api),
    };
    let key = format!("{}|{:?}", api, items);
    ks.put(&key, || format!("{{\"eh\":0,\"items\":{},\"api\":{},\"res\":{},\"clean\":{},\"fresh\":{}}}", jarr(items), api, jarr2(&res), jarr2(&clean), jarr2(&fresh)));
}

pub fn fault_bases() -> Vec<Vec<u8>> {
    let mut v = vec![];
    // the three bases of spec/MC_Reader.tla
    let mut b1 = vec![0xaa];
    b1.extend(frame(&[0x12, 0x1b, 0, 0]));
    b1.extend(frame(&[]));
    v.push(b1);
    let mut b2 = frame(&[0x1b; 5]);
    b2.push(0x55);
    b2.extend(&frame(&[1, 2, 3])[..13]);
    v.push(b2);
    let mut b3 = frame(&[0x33]);
    b3[19] = 0;
    b3.extend([0x1b, 0x1b]);
    b3.extend(frame(&[0]));
    v.push(b3);
    // a frame that needs re-alignment and has pad bytes, followed by noise ending in a partial start sequence
    let mut b4 = frame(&[0x42, 0x1b, 0x1b]);
    b4.extend([0x1b, 0x1b, 0x1b, 0x1b, 1]);
    b4.extend(frame(&[0, 0, 0, 0, 0]));
    v.push(b4);
    v
}

pub fn cmd_c11(tier: &str, out: &str) {
    quiet_panics();
    let thorough = tier == "thorough";
    let mut ks = KeyedSink::create(out);
    let mut rng = Rng::new(seed());
    let mut n = 0u64;
    let kinds = [WB, INT, OTH];
    for base in fault_bases() {
        let cuts: Vec<usize> = (0..=base.len()).filter(|c| thorough || *c == base.len() || c % 3 == 1).collect();
        for cut in &cuts {
            let b: Vec<u32> = base[..*cut].iter().map(|x| *x as u32).collect();
            for api in 0..4u8 {
                fault_record(&mut ks, &b, api);
                n += 1;
            }
            // one fault at every position
            for p in 0..=b.len() {
                for k in kinds {
                    let mut it = b.clone();
                    it.insert(p, k);
                    for api in 0..4u8 {
                        if api >= 2 && !thorough && (p + *cut) % 2 == 1 {
                            continue;
                        }
                        fault_record(&mut ks, &it, api);
                        n += 1;
                    }
                }
            }
        }
        // long runs of a transient fault at one position (retry limits, counters): 2 .. 300 x Interrupted / would-block
        {
            let full: Vec<u32> = base.iter().map(|x| *x as u32).collect();
            let positions: Vec<usize> = vec![0, 1, 8, 10, full.len() / 2, full.len().saturating_sub(1), full.len()];
            for run in [2usize, 15, 16, 17, 18, 64, 255, 256, 257, 300] {
                for p in positions.iter().cloned().filter(|p| *p <= full.len()) {
                    for k in [INT, WB] {
                        if k == WB && run > 18 {
                            continue;
                        }
                        let mut it = full.clone();
                        for _ in 0..run {
                            it.insert(p, k);
                        }
                        for api in [0u8, 1] {
                            fault_record(&mut ks, &it, api);
                            n += 1;
                        }
                    }
                }
            }
        }
        // two faults: exhaustive on the full stream (thorough), random sample (quick); three faults: random
        let full: Vec<u32> = base.iter().map(|x| *x as u32).collect();
        if thorough {
            for p1 in 0..=full.len() {
                for p2 in p1..=full.len() {
                    for k1 in kinds {
                        for k2 in kinds {
                            let mut it = full.clone();
                            it.insert(p2, k2);
                            it.insert(p1, k1);
                            for api in [0u8, 1] {
                                fault_record(&mut ks, &it, api);
                                n += 1;
                            }
                        }
                    }
                }
            }
        }
        for _ in 0..(if thorough { 20000 } else { 2500 }) {
            let cut = if rng.chance(1, 2) { full.len() } else { rng.below(full.len() + 1) };
            let mut it: Vec<u32> = full[..cut].to_vec();
            for _ in 0..2 + rng.below(3) {
                let p = rng.below(it.len() + 1);
                it.insert(p, *rng.pick(&[WB, WB, INT, OTH]));
            }
            fault_record(&mut ks, &it, rng.below(4) as u8);
            n += 1;
        }
    }
    // corpus frames with random schedules
    let files = corpus_files();
    for _ in 0..(if thorough { 3000 } else { 300 }) {
        if files.is_empty() {
            break;
        }
        let f = &files[rng.below(files.len())].1;
        let fr = scan_frames(f);
        if fr.is_empty() {
            continue;
        }
        let mut s: Vec<u32> = vec![];
        for _ in 0..1 + rng.below(2) {
            s.extend(fr[rng.below(fr.len())].0.iter().map(|x| *x as u32));
            for _ in 0..rng.below(3) {
                s.push(rng.byte() as u32);
            }
        }
        if rng.chance(1, 3) {
            let c = rng.below(s.len());
            s.truncate(c);
        }
        for _ in 0..rng.below(5) {
            let p = rng.below(s.len() + 1);
            s.insert(p, *rng.pick(&[WB, INT, OTH]));
        }
        fault_record(&mut ks, &s, rng.below(4) as u8);
        n += 1;
    }
    ks.finish("c11", &format!(",\"schedules\":{}", n));
}

// ------------------------------------------------------------------------------------------------
// C10 end to end
// ------------------------------------------------------------------------------------------------
/// result of one call in target representation t (0 DecodedBytes, 1 File, 2 Parser):
///  [t, 1, <value>]   value: payload bytes | canonical file | event list
///  [t, 0, <event>]   a decode / io error as an event (Events.tla), [t, 2, kind, sub] a parse error, [t, 10] None
fn res_json(t: u8, kind: i64, body: String) -> String {
    format!("[{},{},{}]", t, kind, body)
}

macro_rules! e2e_calls {
    ($r:expr, $n:expr, $calls:expr) => {{
        let mut out: Vec<String> = vec![];
        for (api, t) in $calls.iter() {
            let pos = || $n as i64;
            let s = match (*api, *t) {
                (2, 0) => match $r.next_nb::<DecodedBytes>() {
                    Ok(None) => format!("[0,10,{}]", pos()),
                    Ok(Some(m)) => res_json(0, 1, jarr(m)),
                    Err(nb::Error::WouldBlock) => format!("[0,13,{}]", pos()),
                    Err(nb::Error::Other(e)) => res_json(0, 0, jarr(&ev_of_read_err(pos(), &e))),
                },
                (3, 0) => match $r.read_nb::<DecodedBytes>() {
                    Ok(m) => res_json(0, 1, jarr(m)),
                    Err(nb::Error::WouldBlock) => format!("[0,13,{}]", pos()),
                    Err(nb::Error::Other(e)) => res_json(0, 0, jarr(&ev_of_read_err(pos(), &e))),
                },
                (2, 1) => match $r.next_nb::<File>() {
                    Ok(None) => format!("[1,10,{}]", pos()),
                    Ok(Some(f)) => res_json(1, 1, crate::ps::file(&f)),
                    Err(nb::Error::WouldBlock) => format!("[1,13,{}]", pos()),
                    Err(nb::Error::Other(e)) => file_res::<_>(pos(), Err(e)),
                },
                (3, 1) => match $r.read_nb::<File>() {
                    Ok(f) => res_json(1, 1, crate::ps::file(&f)),
                    Err(nb::Error::WouldBlock) => format!("[1,13,{}]", pos()),
                    Err(nb::Error::Other(e)) => file_res::<_>(pos(), Err(e)),
                },
                (2, 2) => match $r.next_nb::<Parser>() {
                    Ok(None) => format!("[2,10,{}]", pos()),
                    Ok(Some(p)) => parser_ok(p),
                    Err(nb::Error::WouldBlock) => format!("[2,13,{}]", pos()),
                    Err(nb::Error::Other(e)) => parser_res::<_>(pos(), Err(e)),
                },
                (3, 2) => match $r.read_nb::<Parser>() {
                    Ok(p) => parser_ok(p),
                    Err(nb::Error::WouldBlock) => format!("[2,13,{}]", pos()),
                    Err(nb::Error::Other(e)) => parser_res::<_>(pos(), Err(e)),
                },
                (0, 0) => match $r.next::<DecodedBytes>() {
                    None => format!("[0,10,{}]", pos()),
                    Some(Ok(m)) => res_json(0, 1, jarr(m)),
                    Some(Err(e)) => res_json(0, 0, jarr(&ev_of_read_err(pos(), &e))),
                },
                (1, 0) => match $r.read::<DecodedBytes>() {
                    Ok(m) => res_json(0, 1, jarr(m)),
                    Err(e) => res_json(0, 0, jarr(&ev_of_read_err(pos(), &e))),
                },
                (0, 1) => match $r.next::<File>() {
                    None => format!("[1,10,{}]", pos()),
                    Some(r) => file_res(pos(), r),
                },
                (1, 1) => {
                    let x = $r.read::<File>();
                    file_res(pos(), x)
                }
                (0, 2) => match $r.next::<Parser>() {
                    None => format!("[2,10,{}]", pos()),
                    Some(r) => parser_res(pos(), r),
                },
                _ => {
                    let x = $r.read::<Parser>();
                    parser_res(pos(), x)
                }
            };
            out.push(s);
        }
        out
    }};
}
fn file_res<E: ByteSourceErr + std::fmt::Debug>(pos: i64, r: Result<File, ReadParsedError<E>>) -> String {
    match r {
        Ok(f) => res_json(1, 1, crate::ps::file(&f)),
        Err(ReadParsedError::ParseErr(e)) => {
            let (k, s) = crate::ps::err_code(&e);
            format!("[1,2,{},{}]", k, s)
        }
        Err(ReadParsedError::DecodeErr(e)) => res_json(1, 0, jarr(&ev_of_err(pos, &e))),
        Err(ReadParsedError::IoErr(e, n)) => res_json(1, 0, jarr(&ev_of_read_err(pos, &ReadDecodedError::IoErr(e, n)))),
    }
}
fn parser_ok(p: Parser) -> String {
    let evs: Vec<String> = p.take(10000).map(|e| crate::ps::event(&e)).collect();
    res_json(2, 1, format!("[{}]", evs.join(",")))
}
fn parser_res<E: ByteSourceErr>(pos: i64, r: Result<Parser, ReadDecodedError<E>>) -> String {
    match r {
        Ok(p) => {
            let evs: Vec<String> = p.take(10000).map(|e| crate::ps::event(&e)).collect();
            res_json(2, 1, format!("[{}]", evs.join(",")))
        }
        Err(e) => res_json(2, 0, jarr(&ev_of_read_err(pos, &e))),
    }
}

/// hand composition: decode_streaming + parse / Parser::new on the same stream, in the representation each call asks
/// for (positions are not exposed: -1). decode_streaming reports leftover bytes at the end as a final DiscardedBytes
/// error, the reader as an end-of-file error with the same count; the final report is recognised by look-ahead
/// (it is the last item before None) and written in the reader's form.
fn hand(stream: &[u8], calls: &[(u8, u8)]) -> Vec<String> {
    let mut ds = sml_rs::transport::decode_streaming::<Vec<u8>>(stream.iter());
    // collect all items first (owned)
    let mut items: Vec<Result<Vec<u8>, sml_rs::transport::DecodeErr>> = vec![];
    while let Some(x) = ds.next() {
        items.push(x.map(|m| m.to_vec()));
        if items.len() > stream.len() + 8 {
            break;
        }
    }
    let last_is_leftover = matches!(items.last(), Some(Err(sml_rs::transport::DecodeErr::DiscardedBytes(_))));
    let mut out = vec![];
    for (k, (api, t)) in calls.iter().enumerate() {
        let s = if k >= items.len() {
            if *api == 0 || *api == 2 {
                format!("[{},10,-1]", t)
            } else {
                res_json(*t, 0, jarr(&vec![-1, 9, 0, 0]))
            }
        } else {
            match &items[k] {
                Err(e) => {
                    let mut ev = ev_of_err(-1, e);
                    if k + 1 == items.len() && last_is_leftover {
                        ev = vec![-1, 9, 0, ev[2]];
                    }
                    res_json(*t, 0, jarr(&ev))
                }
                Ok(m) => match t {
                    0 => res_json(0, 1, jarr(m)),
                    1 => match sml_rs::parser::complete::parse(m) {
                        Ok(f) => res_json(1, 1, crate::ps::file(&f)),
                        Err(e) => {
                            let (k, s) = crate::ps::err_code(&e);
                            format!("[1,2,{},{}]", k, s)
                        }
                    },
                    _ => {
                        let evs: Vec<String> = Parser::new(m).take(10000).map(|e| crate::ps::event(&e)).collect();
                        res_json(2, 1, format!("[{}]", evs.join(",")))
                    }
                },
            }
        };
        out.push(s);
    }
    out
}

/// A complete frame-like sequence that is NOT the canonical frame of any payload (C10: must be reported as exactly one
/// decode error, never as a file). The monitor re-establishes both facts in TLA+ (J_C10.NearOk).
fn near_frame(rng: &mut Rng) -> Vec<u8> {
    fn nb(rng: &mut Rng) -> u8 {
        loop {
            let b = rng.byte();
            if b != 0x1b && b != 0 {
                return b;
            }
        }
    }
    fn end(s: &mut Vec<u8>, pad: u8, good: bool) {
        s.extend([0x1b, 0x1b, 0x1b, 0x1b, 0x1a, pad]);
        let mut c = crc16(s);
        if !good {
            c ^= 0x0100;
        }
        s.extend(c.to_le_bytes());
    }
    let mut s = START.to_vec();
    match rng.below(7) {
        0 => {
            // pad count 4: four zero bytes, aligned, matching checksum - the protocol allows 0..=3 only
            for _ in 0..4 * rng.below(3) {
                s.push(nb(rng));
            }
            s.extend([0, 0, 0, 0]);
            end(&mut s, 4, true);
        }
        1 => {
            // pad count announced, but the data does not end in that many zeros
            for _ in 0..4 * (1 + rng.below(2)) {
                s.push(nb(rng));
            }
            end(&mut s, 1 + rng.below(3) as u8, true);
        }
        2 => {
            // length not a multiple of four
            for _ in 0..1 + rng.below(7) {
                s.push(nb(rng));
            }
            if s.len() % 4 == 0 {
                s.push(nb(rng));
            }
            end(&mut s, 0, true);
        }
        3 => {
            // canonical frame with one checksum bit flipped
            let p: Vec<u8> = (0..rng.below(7)).map(|_| nb(rng)).collect();
            s = frame(&p);
            let l = s.len();
            s[l - 1 - rng.below(2)] ^= 1 << rng.below(8);
        }
        4 => {
            // invalid escape sequence
            for _ in 0..4 * rng.below(2) {
                s.push(nb(rng));
            }
            s.extend([0x1b, 0x1b, 0x1b, 0x1b, 2 + rng.below(0x18) as u8, nb(rng), nb(rng), nb(rng)]);
        }
        5 => {
            // pad count 5..=255 with zeros and a matching checksum
            for _ in 0..4 {
                s.push(nb(rng));
            }
            s.extend([0, 0, 0, 0, 0, 0, 0, 0]);
            end(&mut s, 5 + rng.below(251) as u8, true);
        }
        _ => {
            // pad count larger than the whole data part
            for _ in 0..4 * rng.below(1) {
                s.push(nb(rng));
            }
            end(&mut s, 1 + rng.below(3) as u8, true);
        }
    }
    s
}

pub fn cmd_c10(tier: &str, out: &str) {
    quiet_panics();
    let thorough = tier == "thorough";
    let mut ks = KeyedSink::create(out);
    let mut rng = Rng::new(seed());
    let corpus = corpus_payloads();
    let ncases = if thorough { 2500 } else { 700 };
    for case in 0..ncases {
        // files: generated (with the generator's intent) or real meter payloads
        let k = if case % 7 == 0 { 0 } else { 1 + rng.below(3) };
        let mut files: Vec<Vec<u8>> = vec![];
        for _ in 0..k {
            if !corpus.is_empty() && rng.chance(1, 3) {
                files.push(corpus[rng.below(corpus.len())].clone());
            } else {
                let mut g = crate::pf::Gen { rng: &mut rng, nonminimal: true, in_opt: false };
                files.push(g.file().0);
            }
            // every third case: octet strings whose content matters to the transport layer (zeros before a literal
            // 1b1b1b1b, start / end look-alikes, 0x1b and zero runs); the file stays valid, checksums recomputed
            if case % 3 == 2 {
                let last = files.len() - 1;
                crate::pf::wire_sensitive(&mut files[last], &mut rng);
            }
        }
        // noise: arbitrary bytes not containing a start sequence; may end in 1b.. / a partial start sequence
        let mut noises: Vec<Vec<u8>> = vec![];
        for _ in 0..=k {
            let mut g: Vec<u8> = vec![];
            if rng.chance(1, 2) {
                let l = rng.below(12);
                g = (0..l).map(|_| if rng.chance(1, 3) { *rng.pick(&[0x1bu8, 1, 0x1a, 0]) } else { rng.byte() }).collect();
                if rng.chance(1, 3) {
                    g.extend(&START[..rng.below(8)]);
                }
                // reject noise containing a full start sequence (alone or with the following frame start)
                let mut probe = g.clone();
                probe.extend(START);
                let occ = (0..=probe.len() - 8).filter(|i| probe[*i..*i + 8] == START).count();
                if occ != 1 {
                    g.clear();
                }
            }
            noises.push(g);
        }
        // near-frames after the noise: frame-like sequences that must be rejected with one error each
        let nears: Vec<Vec<u8>> = (0..=k).map(|_| if case % 2 == 1 && rng.chance(1, 2) { near_frame(&mut rng) } else { vec![] }).collect();
        // noise directly behind a near-frame (the decoder has just rejected a transmission, possibly with withheld zeros)
        let posts: Vec<Vec<u8>> = nears
            .iter()
            .map(|nr| {
                if nr.is_empty() || !rng.chance(1, 2) {
                    return vec![];
                }
                let l = 1 + rng.below(5);
                let g: Vec<u8> = (0..l).map(|_| if rng.chance(1, 3) { *rng.pick(&[0x1bu8, 1, 0x1a, 0]) } else { rng.byte() }).collect();
                let mut probe = g.clone();
                probe.extend(START);
                if (0..=probe.len() - 8).filter(|i| probe[*i..*i + 8] == START).count() != 1 {
                    return vec![];
                }
                g
            })
            .collect();
        let mut stream: Vec<u8> = noises[0].clone();
        stream.extend(&nears[0]);
        stream.extend(&posts[0]);
        for i in 0..k {
            stream.extend(frame(&files[i]));
            stream.extend(&noises[i + 1]);
            stream.extend(&nears[i + 1]);
            stream.extend(&posts[i + 1]);
        }
        // every fourth case: the input ends in a cut-off transmission (start sequence + body without 0x1b, no end)
        let tail: Vec<u8> = if case % 4 == 3 {
            let l = if rng.chance(1, 3) { 0 } else { rng.below(12) };
            START.iter().cloned().chain((0..l).map(|_| { let b = rng.byte(); if b == 0x1b { 0x1c } else { b } })).collect()
        } else {
            vec![]
        };
        stream.extend(&tail);
        // expected number of results: noise reports + near-frame errors + values + end; calls: that many plus 3 more
        let nres = k + noises.iter().filter(|g| !g.is_empty()).count() + nears.iter().filter(|g| !g.is_empty()).count() + posts.iter().filter(|g| !g.is_empty()).count() + 3 + (!tail.is_empty()) as usize;
        let calls: Vec<(u8, u8)> = (0..nres)
            .map(|_| (if case % 5 == 1 { 1 } else if case % 5 == 2 { rng.below(2) as u8 } else if case % 5 == 3 { rng.below(4) as u8 } else if case % 5 == 4 { 2 } else { 0 }, if case % 3 == 0 { (case / 3 % 3) as u8 } else { rng.below(3) as u8 }))
            .collect();
        let maxlen = files.iter().map(|f| f.len()).max().unwrap_or(0);
        for (src, buf) in [(0u8, 0u8), (1, 1), (2, 2), (1, 0), (2, 1), (0, 2), (3, 0), (3, 2)] {
            if !thorough && (case + src as usize + buf as usize) % 3 != 0 {
                continue;
            }
            // buf: 0 default 8 KiB, 1 ArrayBuf<N> with N = smallest instantiated >= max file length, 2 Vec
            let nfix = cap_at_least(maxlen.max(16));
            let res: Vec<String> = match catch_unwind(AssertUnwindSafe(|| run_e2e(&stream, src, buf, nfix, &calls))) {
                Ok(v) => v,
                Err(_) => vec!["[0,8]".to_string()],
            };
            let hnd = hand(&stream, &calls);
            let key = format!("{:?}|{:?}|{}|{}", stream, calls, src, buf);
            ks.put(&key, || {
                format!(
                    "{{\"files\":{},\"noise\":{},\"near\":{},\"post\":{},\"tail\":{},\"stream\":{},\"src\":{},\"buf\":{},\"nfix\":{},\"calls\":{},\"res\":[{}],\"hand\":[{}]}}",
                    jarr2(&files.iter().map(|f| f.iter().map(|b| *b as i64).collect()).collect::<Vec<Vec<i64>>>()),
                    jarr2(&noises.iter().map(|f| f.iter().map(|b| *b as i64).collect()).collect::<Vec<Vec<i64>>>()),
                    jarr2(&nears.iter().map(|f| f.iter().map(|b| *b as i64).collect()).collect::<Vec<Vec<i64>>>()),
                    jarr2(&posts.iter().map(|f| f.iter().map(|b| *b as i64).collect()).collect::<Vec<Vec<i64>>>()),
                    jarr(&tail),
                    jarr(&stream),
                    src,
                    buf,
                    nfix,
                    jarr2(&calls.iter().map(|c| vec![c.0 as i64, c.1 as i64]).collect::<Vec<_>>()),
                    res.join(","),
                    hnd.join(",")
                )
            });
        }
    }
    ks.finish("c10", "");
}

fn run_e2e(stream: &[u8], src: u8, buf: u8, nfix: usize, calls: &[(u8, u8)]) -> Vec<String> {
    macro_rules! with_src {
        ($builder:expr) => {{
            match src {
                0 => {
                    let mut r = $builder.from_slice(stream);
                    e2e_calls!(r, -1i64, calls)
                }
                1 => {
                    let (it, n) = counting(stream);
                    let mut r = $builder.from_iterator(it);
                    e2e_calls!(r, n.get(), calls)
                }
                _ => {
                    let n = Rc::new(Cell::new(0));
                    let mut r = $builder.from_reader(CountingRead2 { s: stream, i: 0, n: n.clone(), intr: if src == 3 { 7 } else { 0 }, pending_intr: false });
                    e2e_calls!(r, n.get(), calls)
                }
            }
        }};
    }
    match buf {
        2 => with_src!(SmlReader::with_vec_buffer()),
        1 => {
            macro_rules! go {
                ($k:literal) => {
                    with_src!(SmlReader::with_static_buffer::<$k>())
                };
            }
            crate::with_arraybuf!(nfix, go)
        }
        _ => match src {
            0 => {
                let mut r = SmlReader::from_slice(stream);
                e2e_calls!(r, -1i64, calls)
            }
            1 => {
                let (it, n) = counting(stream);
                let mut r = SmlReader::from_iterator(it);
                e2e_calls!(r, n.get(), calls)
            }
            _ => {
                let n = Rc::new(Cell::new(0));
                let mut r = SmlReader::from_reader(CountingRead2 { s: stream, i: 0, n: n.clone(), intr: if src == 3 { 7 } else { 0 }, pending_intr: false });
                e2e_calls!(r, n.get(), calls)
            }
        },
    }
}

pub struct CountingRead2<'a> {
    pub s: &'a [u8],
    pub i: usize,
    pub n: Rc<Cell<usize>>,
    /// if > 0: report ErrorKind::Interrupted once before every byte whose index is a multiple of `intr` (and at the end)
    pub intr: usize,
    pub pending_intr: bool,
}
impl<'a> Read for CountingRead2<'a> {
    fn read(&mut self, buf: &mut [u8]) -> std::io::Result<usize> {
        if self.intr > 0 && self.i % self.intr == 0 && !self.pending_intr {
            self.pending_intr = true;
            return Err(Error::new(ErrorKind::Interrupted, "interrupted"));
        }
        self.pending_intr = false;
        if self.i < self.s.len() && !buf.is_empty() {
            buf[0] = self.s[self.i];
            self.i += 1;
            self.n.set(self.i);
            Ok(1)
        } else {
            Ok(0)
        }
    }
}
