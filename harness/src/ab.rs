//! C18: ArrayBuf<N> (and Vec through the same Buffer trait) under operation sequences.
//!  {"n":N (-1 = Vec),"ops":[[kind,args..]..],"obs":[[code,contents..]..],"dbg":0|1,"eq":[same,different],"src":"enum"|"tlc"}
//!  op kinds: 1 push b, 2 extend s.., 3 truncate k, 4 clear, 5 from_iter s..   code: 0 ok, 1 out-of-memory, 8 panic
use crate::common::*;
use crate::tr2::KeyedSink;
use sml_rs::util::{ArrayBuf, Buffer};
use std::panic::{catch_unwind, AssertUnwindSafe};

fn run_ops_buf<B: Buffer + std::fmt::Debug>(ops: &[Vec<i64>], from_iter: &dyn Fn(&[u8]) -> Option<B>, eq: &dyn Fn(&B, &B) -> bool) -> (Vec<Vec<i64>>, i64, Vec<i64>) {
    let mut b: B = Default::default();
    let mut obs = vec![];
    for op in ops {
        let args: Vec<u8> = op[1..].iter().map(|x| *x as u8).collect();
        let code = match catch_unwind(AssertUnwindSafe(|| match op[0] {
            1 => b.push(args[0]).is_err() as i64,
            2 => b.extend_from_slice(&args).is_err() as i64,
            3 => {
                b.truncate(op[1] as usize);
                0
            }
            4 => {
                b.clear();
                0
            }
            _ => match catch_unwind(AssertUnwindSafe(|| from_iter(&args))) {
                Ok(Some(nb)) => {
                    b = nb;
                    0
                }
                Ok(None) => 0,
                Err(_) => 8,
            },
        })) {
            Ok(c) => c,
            Err(_) => 8,
        };
        let mut o = vec![code];
        o.extend(b.iter().map(|x| *x as i64));
        obs.push(o);
    }
    // Debug depends on the visible contents only
    let dbg = (format!("{:?}", b) == format!("{:?}", &b[..])) as i64;
    // equality depends on the visible contents only: rebuild the same contents in a buffer with different stale bytes
    let contents: Vec<u8> = b.to_vec();
    let mut other: B = Default::default();
    for _ in 0..contents.len() {
        let _ = other.push(0xEE);
    }
    other.clear();
    let _ = other.extend_from_slice(&contents);
    let same = eq(&b, &other) as i64;
    let mut third: B = Default::default();
    let _ = third.extend_from_slice(&contents);
    let differs = if !contents.is_empty() {
        third.truncate(contents.len() - 1);
        let _ = third.push(contents[contents.len() - 1] ^ 1);
        eq(&b, &third) as i64
    } else if third.push(7).is_ok() {
        eq(&b, &third) as i64
    } else {
        0
    };
    // equality is the equality of the visible contents, in both directions: a buffer is not equal to a strict prefix of
    // itself nor to an extension of itself, whichever side it stands on; and equal buffers are equal from both sides
    let (mut pre_l, mut pre_r, mut ext_l, mut ext_r) = (0i64, 0i64, 0i64, 0i64);
    if !contents.is_empty() {
        let mut prefix: B = Default::default();
        let _ = prefix.extend_from_slice(&contents[..contents.len() - 1]);
        pre_l = eq(&b, &prefix) as i64;
        pre_r = eq(&prefix, &b) as i64;
        let mut empty: B = Default::default();
        empty.clear();
        pre_l |= eq(&b, &empty) as i64;
        pre_r |= eq(&empty, &b) as i64;
    }
    let mut longer: B = Default::default();
    let _ = longer.extend_from_slice(&contents);
    if longer.push(contents.first().cloned().unwrap_or(0)).is_ok() {
        ext_l = eq(&b, &longer) as i64;
        ext_r = eq(&longer, &b) as i64;
    }
    let same_r = eq(&other, &b) as i64;
    (obs, dbg, vec![same, differs, pre_l, pre_r, ext_l, ext_r, same_r])
}

/// yields exactly the bytes of `s`, but through a filter over a three times longer source: its size_hint is (0, Some(3*len))
fn sparse_iter<'a>(s: &'a [u8]) -> impl Iterator<Item = u8> + 'a {
    s.iter().flat_map(|b| [Some(*b), None, None]).flatten()
}

/// a non-fused iterator: yields the bytes of `s`, then None, and after that Some(0xEE) again (like a polled UART);
/// "the iterator" in the sense of FromIterator ends at the first None
struct Unfused<'a> {
    s: &'a [u8],
    i: usize,
}
impl<'a> Iterator for Unfused<'a> {
    type Item = u8;
    fn next(&mut self) -> Option<u8> {
        self.i += 1;
        if self.i <= self.s.len() {
            Some(self.s[self.i - 1])
        } else if self.i == self.s.len() + 1 {
            None
        } else {
            Some(0xEE)
        }
    }
}

fn run_ops(n: i64, ops: &[Vec<i64>]) -> (Vec<Vec<i64>>, i64, Vec<i64>) {
    if n < 0 {
        return run_ops_buf::<Vec<u8>>(ops, &|s| Some(sparse_iter(s).collect::<Vec<u8>>()), &|a, b| a == b);
    }
    macro_rules! go {
        ($k:literal) => {
            run_ops_buf::<ArrayBuf<$k>>(
                ops,
                &|s| {
                    // alternate between an exact-size iterator and one that only *may* yield more (filtered)
                    match s.len() % 3 {
                        0 => Some(s.iter().cloned().collect::<ArrayBuf<$k>>()),
                        1 => Some(sparse_iter(s).collect::<ArrayBuf<$k>>()),
                        _ => Some(Unfused { s, i: 0 }.collect::<ArrayBuf<$k>>()),
                    }
                },
                &|a, b| a == b,
            )
        };
    }
    crate::with_arraybuf!(n as usize, go)
}

fn emit(ks: &mut KeyedSink, n: i64, ops: &[Vec<i64>], src: &str) {
    let (obs, dbg, eq) = run_ops(n, ops);
    let key = format!("{}|{:?}", n, ops);
    ks.put(&key, || format!("{{\"n\":{},\"ops\":{},\"obs\":{},\"dbg\":{},\"eq\":{},\"src\":\"{}\"}}", n, jarr2(ops), jarr2(&obs), dbg, jarr(&eq), src));
}

pub fn cmd_c18(tier: &str, out: &str) {
    crate::fe::quiet_panics();
    let mut ks = KeyedSink::create(out);
    // (B) behaviours generated by TLC from spec/MC_ArrayBuf.tla
    let mut ntlc = 0;
    if let Ok(p) = std::env::var("VF_STIM") {
        if let Ok(text) = std::fs::read_to_string(&p) {
            for line in text.lines() {
                let v: serde_json::Value = match serde_json::from_str(line) {
                    Ok(v) => v,
                    Err(_) => continue,
                };
                let n = v["n"].as_i64().unwrap_or(0);
                let ops: Vec<Vec<i64>> = v["ops"].as_array().map(|a| a.iter().map(|o| o.as_array().unwrap().iter().map(|x| x.as_i64().unwrap()).collect()).collect()).unwrap_or_default();
                emit(&mut ks, n, &ops, "tlc");
                ntlc += 1;
            }
        }
    }
    // (C) the harness' own enumeration: all op sequences of depth d over small alphabets, N in 0..=3 (+ Vec)
    let mk_alphabet = |maxslice: usize| -> Vec<Vec<i64>> {
        let mut alphabet: Vec<Vec<i64>> = vec![vec![1, 0], vec![1, 1], vec![4]];
        for k in 0..=(maxslice as i64 + 1) {
            alphabet.push(vec![3, k]);
        }
        // truncate(k) with k congruent to a small number modulo 2^8 / 2^16 (a narrowed length field)
        alphabet.push(vec![3, 256]);
        alphabet.push(vec![3, 65536]);
        alphabet.push(vec![3, 65537]);
        for kind in [2i64, 5] {
            for len in 0..=maxslice {
                for idx in 0..(2usize.pow(len as u32)) {
                    let mut o = vec![kind];
                    o.extend(seq_by_index(&[0u8, 1], len, idx).iter().map(|b| *b as i64));
                    alphabet.push(o);
                }
            }
        }
        alphabet
    };
    let mut seq: Vec<Vec<i64>> = vec![];
    fn rec(seq: &mut Vec<Vec<i64>>, d: usize, al: &[Vec<i64>], f: &mut dyn FnMut(&[Vec<i64>])) {
        if d == 0 {
            f(seq);
            return;
        }
        for o in al {
            seq.push(o.clone());
            rec(seq, d - 1, al, f);
            seq.pop();
        }
    }
    // depth 3 over slices up to length 3; depth 4 (thorough) over slices up to length 2
    let caps: Vec<i64> = if tier == "thorough" { vec![0, 1, 2, 3, 4, -1] } else { vec![0, 1, 2, 3] };
    let a3 = mk_alphabet(3);
    let a2 = mk_alphabet(2);
    for n in &caps {
        rec(&mut seq, 3, &a3, &mut |s| emit(&mut ks, *n, s, "enum"));
        if tier == "thorough" {
            rec(&mut seq, 4, &a2, &mut |s| emit(&mut ks, *n, s, "enum"));
        }
    }
    // random longer histories on larger capacities with arbitrary byte values
    let mut rng = Rng::new(seed());
    for _ in 0..(if tier == "thorough" { 20000 } else { 2000 }) {
        let n = *rng.pick(&[5i64, 8, 16, 31, 48, 255, 256, -1]);
        let len = 1 + rng.below(24);
        let mut ops = vec![];
        for _ in 0..len {
            let cap = if n < 0 { 40 } else { n as usize };
            ops.push(match rng.below(6) {
                0 | 1 => vec![1, rng.byte() as i64],
                2 => {
                    let l = rng.below(cap + 3);
                    let mut o = vec![2];
                    o.extend((0..l).map(|_| rng.byte() as i64));
                    o
                }
                3 => vec![3, if rng.chance(1, 3) { *rng.pick(&[255i64, 256, 257, 65535, 65536, 65537, 65539, 131072, 131075, 16777216, 16777219, 2147483647]) } else { rng.below(cap + 2) as i64 }],
                4 => vec![4],
                _ => {
                    let l = rng.below(cap + 2);
                    let mut o = vec![5];
                    o.extend((0..l).map(|_| rng.byte() as i64));
                    o
                }
            });
        }
        emit(&mut ks, n, &ops, "rand");
    }
    // BIG: fixed buffers of 2^16 and more bytes filled across the 2^16 boundary (a length field narrower than usize wraps there)
    for n in [65536i64, 66000, 70000] {
        let mut big: Vec<i64> = vec![2];
        big.extend((0..65535).map(|k| ((k * 7 + 3) % 251) as i64));
        let ops: Vec<Vec<i64>> = vec![big, vec![1, 0xaa], vec![1, 0xbb], vec![3, 65535], vec![2, 1, 2]];
        emit(&mut ks, n, &ops, "big");
    }
    ks.finish("c18", &format!(",\"tlc_behaviours\":{}", ntlc));
}
