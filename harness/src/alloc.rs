//! Counting global allocator: number / largest / total size of allocation requests inside a measured region (C06).
use std::alloc::{GlobalAlloc, Layout, System};
use std::sync::atomic::{AtomicBool, AtomicU64, Ordering::Relaxed};

pub struct Counting;
pub static ON: AtomicBool = AtomicBool::new(false);
pub static COUNT: AtomicU64 = AtomicU64::new(0);
pub static MAXREQ: AtomicU64 = AtomicU64::new(0);
pub static TOTAL: AtomicU64 = AtomicU64::new(0);
/// requests above this size are refused (the process then aborts like on a real allocation failure)
pub const REFUSE_ABOVE: u64 = 6 << 30;
/// allocation-failure injection (af.rs): when non-zero, every request above this many bytes is refused
pub static LIMIT: AtomicU64 = AtomicU64::new(0);
fn refused(size: usize) -> bool {
    let l = LIMIT.load(Relaxed);
    size as u64 > REFUSE_ABOVE || (l != 0 && size as u64 > l)
}

fn note(size: usize) {
    if ON.load(Relaxed) {
        COUNT.fetch_add(1, Relaxed);
        TOTAL.fetch_add(size as u64, Relaxed);
        MAXREQ.fetch_max(size as u64, Relaxed);
    }
}

unsafe impl GlobalAlloc for Counting {
    unsafe fn alloc(&self, l: Layout) -> *mut u8 {
        note(l.size());
        if refused(l.size()) {
            return std::ptr::null_mut();
        }
        System.alloc(l)
    }
    unsafe fn dealloc(&self, p: *mut u8, l: Layout) {
        System.dealloc(p, l)
    }
    unsafe fn realloc(&self, p: *mut u8, l: Layout, new: usize) -> *mut u8 {
        note(new);
        if refused(new) {
            return std::ptr::null_mut();
        }
        System.realloc(p, l, new)
    }
}

pub fn start() {
    COUNT.store(0, Relaxed);
    MAXREQ.store(0, Relaxed);
    TOTAL.store(0, Relaxed);
    ON.store(true, Relaxed);
}
/// returns (count, largest request, total requested)
pub fn stop() -> (u64, u64, u64) {
    ON.store(false, Relaxed);
    (COUNT.load(Relaxed), MAXREQ.load(Relaxed), TOTAL.load(Relaxed))
}
