//! Parser stimulus families (C03 C04 C06 C09 C12 C13): corpus payloads, systematic and random corruptions with and
//! without recomputed message checksums, declared-length bombs, generated files with all encoding choices.
use crate::common::*;

// ------------------------------------------------------------------------------------------------
// a type-agnostic TLV walker (the harness' own; only used to place mutations and to recompute checksums)
// ------------------------------------------------------------------------------------------------
#[derive(Clone, Copy, Debug)]
pub struct Elem {
    pub pos: usize,     // first byte of the TLF
    pub tlf_len: usize, // bytes of the TLF
    pub ty: u8,
    pub len: u64, // declared length (elements for lists, payload bytes otherwise)
    pub end: usize, // index after the element (for lists: after the last child)
    pub depth: usize,
}

/// Walk one element starting at i; pushes every element (pre-order). Returns index after it, or None if malformed.
pub fn walk(x: &[u8], i: usize, depth: usize, out: &mut Vec<Elem>) -> Option<usize> {
    if i >= x.len() || depth > 12 {
        return None;
    }
    if x[i] == 0x00 {
        out.push(Elem { pos: i, tlf_len: 1, ty: 0xff, len: 0, end: i + 1, depth });
        return Some(i + 1);
    }
    let mut b = x[i];
    let ty = (b >> 4) & 7;
    let mut len: u64 = (b & 15) as u64;
    let mut n = 1;
    while b & 0x80 != 0 {
        if i + n >= x.len() || n > 12 {
            return None;
        }
        b = x[i + n];
        len = (len << 4) | (b & 15) as u64;
        n += 1;
    }
    let idx = out.len();
    out.push(Elem { pos: i, tlf_len: n, ty, len, end: 0, depth });
    let end = if ty == 7 {
        let mut j = i + n;
        if len > x.len() as u64 {
            return None;
        }
        for _ in 0..len {
            j = walk(x, j, depth + 1, out)?;
        }
        j
    } else {
        if len < n as u64 {
            return None;
        }
        let l = (len - n as u64) as usize;
        if i + n + l > x.len() {
            return None;
        }
        i + n + l
    };
    out[idx].end = end;
    Some(end)
}

/// message spans (start, crc field start, end) for as many leading messages as walk
pub fn message_spans(x: &[u8]) -> Vec<(usize, usize, usize)> {
    let mut v = vec![];
    let mut i = 0;
    while i < x.len() {
        let mut el = vec![];
        let end = match walk(x, i, 0, &mut el) {
            Some(e) => e,
            None => break,
        };
        // top-level children of the message list
        let kids: Vec<&Elem> = el.iter().filter(|e| e.depth == 1).collect();
        if el[0].ty == 7 && kids.len() == 6 {
            v.push((i, kids[4].pos, end));
        }
        i = end;
    }
    v
}

/// recompute the checksum field of every message that still walks (only 1- or 2-byte unsigned fields are rewritten)
pub fn fix_crcs(x: &mut Vec<u8>) -> bool {
    let mut any = false;
    for (i0, c, _) in message_spans(x) {
        let d = crc16(&x[i0..c]);
        if x[c] == 0x63 && c + 2 < x.len() {
            x[c + 1] = d as u8;
            x[c + 2] = (d >> 8) as u8;
            any = true;
        }
    }
    any
}

/// the 16-bit checksums an implementation might confuse with CRC-16/X.25: other CCITT / ARC variants, in both byte orders
pub fn foreign_crcs(data: &[u8]) -> Vec<[u8; 2]> {
    fn crc(data: &[u8], poly: u16, init: u16, refl: bool, xorout: u16) -> u16 {
        let mut c = init;
        for &b in data {
            if refl {
                c ^= b as u16;
                for _ in 0..8 {
                    c = if c & 1 != 0 { (c >> 1) ^ poly } else { c >> 1 };
                }
            } else {
                c ^= (b as u16) << 8;
                for _ in 0..8 {
                    c = if c & 0x8000 != 0 { (c << 1) ^ poly } else { c << 1 };
                }
            }
        }
        c ^ xorout
    }
    let vals = [
        crc(data, 0x8408, 0xffff, true, 0xffff), // X.25 (the right one; only its swapped order is foreign)
        crc(data, 0x8408, 0x0000, true, 0x0000), // KERMIT
        crc(data, 0x8408, 0xffff, true, 0x0000), // MCRF4XX
        crc(data, 0x1021, 0x0000, false, 0x0000), // XMODEM
        crc(data, 0x1021, 0xffff, false, 0x0000), // CCITT-FALSE
        crc(data, 0x1021, 0xffff, false, 0xffff), // GENIBUS
        crc(data, 0xa001, 0x0000, true, 0x0000), // ARC
        crc(data, 0xa001, 0xffff, true, 0x0000), // MODBUS
        data.iter().fold(0u16, |a, b| a.wrapping_add(*b as u16)), // plain sum
    ];
    let mut out = vec![];
    for v in vals {
        out.push([v as u8, (v >> 8) as u8]);
        out.push([(v >> 8) as u8, v as u8]);
    }
    out
}

pub fn all_elems(x: &[u8]) -> Vec<Elem> {
    let mut v = vec![];
    let mut i = 0;
    while i < x.len() {
        match walk(x, i, 0, &mut v) {
            Some(e) => i = e,
            None => break,
        }
    }
    v
}

// ------------------------------------------------------------------------------------------------
// generator of valid SML files with every encoding choice; returns (bytes, abstract content as canonical JSON)
// ------------------------------------------------------------------------------------------------
pub struct Gen<'a> {
    pub rng: &'a mut Rng,
    pub nonminimal: bool, // allow non-minimal / multi-byte TLFs
    pub in_opt: bool,
}
fn tlf(ty: u8, len: u64, extra_bytes: usize, is_list: bool) -> Vec<u8> {
    // minimal number n of TLF bytes such that the declared value (which includes n for non-list types) fits 4n bits
    let mut n = 1usize;
    while (if is_list { len } else { len + n as u64 }) >= (1u64 << (4 * n)) {
        n += 1;
    }
    // non-minimal encodings: extra leading TLF bytes with zero length nibbles
    n += extra_bytes;
    let v = if is_list { len } else { len + n as u64 };
    let mut out = vec![];
    for k in 0..n {
        let nib = ((v >> (4 * (n - 1 - k))) & 15) as u8;
        let more = if k + 1 < n { 0x80 } else { 0 };
        let t = if k == 0 { ty << 4 } else { 0 };
        out.push(more | t | nib);
    }
    out
}
impl<'a> Gen<'a> {
    fn extra(&mut self) -> usize {
        if self.nonminimal && self.rng.chance(1, 6) {
            1 + self.rng.below(2)
        } else {
            0
        }
    }
    fn octet(&mut self, out: &mut Vec<u8>, maxlen: usize) -> String {
        let l = match self.rng.below(8) {
            0 => 0,
            1 => 14 + self.rng.below(4), // around the 15/16 one-byte TLF boundary
            2 => maxlen,
            _ => self.rng.below(maxlen + 1),
        };
        let b: Vec<u8> = (0..l).map(|_| if self.rng.chance(1, 4) { *self.rng.pick(&[0u8, 1, 0x1b, 0xff, 0x76]) } else { self.rng.byte() }).collect();
        let mut e = self.extra();
        if l == 0 && e == 0 && self.in_opt {
            e = 1; // a one-byte TLF 0x01 in an optional position *is* the "absent" marker
        }
        out.extend(tlf(0, l as u64, e, false));
        out.extend(&b);
        jarr(&b)
    }
    fn opt<F: FnOnce(&mut Self, &mut Vec<u8>) -> String>(&mut self, out: &mut Vec<u8>, f: F) -> String {
        if self.rng.chance(1, 2) {
            out.push(0x01);
            "[]".into()
        } else {
            self.in_opt = true;
            let r = format!("[{}]", f(self, out));
            self.in_opt = false;
            r
        }
    }
    /// unsigned/signed number of `l` bytes with interesting leading bytes; returns the raw bytes
    fn num_bytes(&mut self, l: usize) -> Vec<u8> {
        let mut b: Vec<u8> = (0..l).map(|_| self.rng.byte()).collect();
        if self.rng.chance(2, 3) {
            b[0] = *self.rng.pick(&[0x00u8, 0x01, 0x7f, 0x80, 0x81, 0xfe, 0xff]);
        }
        b
    }
    fn uint(&mut self, out: &mut Vec<u8>, l: usize) -> Vec<u8> {
        let b = self.num_bytes(l);
        let e = self.extra();
        out.extend(tlf(6, l as u64, e, false));
        out.extend(&b);
        b
    }
    fn u8f(&mut self, out: &mut Vec<u8>) -> String {
        let b = self.uint(out, 1);
        format!("{}", b[0])
    }
    fn i8f(&mut self, out: &mut Vec<u8>) -> String {
        let b = self.num_bytes(1);
        let e = self.extra();
        out.extend(tlf(5, 1, e, false));
        out.extend(&b);
        format!("{}", b[0] as i8)
    }
    fn time(&mut self, out: &mut Vec<u8>) -> String {
        if self.rng.chance(1, 3) {
            // vendor workaround: bare unsigned-32
            let b = self.num_bytes(4);
            out.push(0x65);
            out.extend(&b);
            jarr(&b)
        } else {
            let e = self.extra();
            out.extend(tlf(7, 2, e, true));
            let e = self.extra();
            out.extend(tlf(6, 1, e, false));
            out.push(1);
            let l = 1 + self.rng.below(4);
            let b = self.uint(out, l);
            let mut full = vec![0u8; 4 - l];
            full.extend(&b);
            jarr(&full)
        }
    }
    fn class(l: usize) -> usize {
        match l {
            1 => 8,
            2 => 16,
            3 | 4 => 32,
            _ => 64,
        }
    }
    fn status(&mut self, out: &mut Vec<u8>) -> String {
        let l = 1 + self.rng.below(8);
        let b = self.uint(out, l);
        let c = Self::class(l);
        let mut full = vec![0u8; c / 8 - l];
        full.extend(&b);
        format!("[{},{}]", c, jarr(&full))
    }
    fn value(&mut self, out: &mut Vec<u8>) -> String {
        match self.rng.below(6) {
            0 => {
                let b = *self.rng.pick(&[0u8, 1, 2, 0x80, 0xff]);
                out.push(0x42);
                out.push(b);
                format!("[0,{}]", (b != 0) as u8)
            }
            1 => format!("[1,{}]", self.octet(out, 20)),
            2 | 3 => {
                let signed = self.rng.chance(1, 2);
                let l = 1 + self.rng.below(8);
                let b = self.num_bytes(l);
                let e = self.extra();
                out.extend(tlf(if signed { 5 } else { 6 }, l as u64, e, false));
                out.extend(&b);
                let c = Self::class(l);
                let fill = if signed && b[0] > 0x7f { 0xff } else { 0 };
                let mut full = vec![fill; c / 8 - l];
                full.extend(&b);
                format!("[{},{},{}]", if signed { 2 } else { 3 }, c, jarr(&full))
            }
            4 => {
                let e = self.extra();
                out.extend(tlf(7, 2, e, true));
                out.extend([0x62, 0x01]);
                format!("[4,{}]", self.time(out))
            }
            _ => {
                let b = self.num_bytes(8);
                out.push(0x59);
                out.extend(&b);
                format!("[2,64,{}]", jarr(&b))
            }
        }
    }
    fn entry(&mut self, out: &mut Vec<u8>) -> String {
        let e = self.extra();
        out.extend(tlf(7, 7, e, true));
        let name = self.octet(out, 8);
        let st = self.opt(out, |g, o| g.status(o));
        let vt = self.opt(out, |g, o| g.time(o));
        let unit = self.opt(out, |g, o| g.u8f(o));
        let sc = self.opt(out, |g, o| g.i8f(o));
        let val = self.value(out);
        let sig = self.opt(out, |g, o| g.octet(o, 24));
        format!("[{},{},{},{},{},{},{}]", name, st, vt, unit, sc, val, sig)
    }
    fn message(&mut self, out: &mut Vec<u8>, kind: usize, nlist: usize) -> String {
        let start = out.len();
        let e = self.extra();
        out.extend(tlf(7, 6, e, true));
        let tid = self.octet(out, 12);
        let g = self.u8f(out);
        let a = self.u8f(out);
        let e = self.extra();
        out.extend(tlf(7, 2, e, true));
        let tag: u32 = [0x101, 0x201, 0x701][kind];
        // the tag is an unsigned of 2..4 bytes
        let tl = 2 + self.rng.below(3);
        let e = self.extra();
        out.extend(tlf(6, tl as u64, e, false));
        out.extend(&tag.to_be_bytes()[4 - tl..]);
        let body = match kind {
            0 => {
                let e = self.extra();
                out.extend(tlf(7, 6, e, true));
                let cp = self.opt(out, |g, o| g.octet(o, 6));
                let ci = self.opt(out, |g, o| g.octet(o, 10));
                let rf = self.octet(out, 10);
                let si = self.octet(out, 10);
                let rt = self.opt(out, |g, o| g.time(o));
                let ve = self.opt(out, |g, o| g.u8f(o));
                format!("[1,{},{},{},{},{},{}]", cp, ci, rf, si, rt, ve)
            }
            1 => {
                let e = self.extra();
                out.extend(tlf(7, 1, e, true));
                let s = self.opt(out, |g, o| g.octet(o, 16));
                format!("[2,{}]", s)
            }
            _ => {
                let e = self.extra();
                out.extend(tlf(7, 7, e, true));
                let ci = self.opt(out, |g, o| g.octet(o, 10));
                let si = self.octet(out, 10);
                let ln = self.opt(out, |g, o| g.octet(o, 6));
                let at = self.opt(out, |g, o| g.time(o));
                let e = self.extra();
                out.extend(tlf(7, nlist as u64, e, true));
                let es: Vec<String> = (0..nlist).map(|_| self.entry(out)).collect();
                let sg = self.opt(out, |g, o| g.octet(o, 16));
                let gt = self.opt(out, |g, o| g.time(o));
                format!("[7,{},{},{},{},[{}],{},{}]", ci, si, ln, at, es.join(","), sg, gt)
            }
        };
        let d = crc16(&out[start..]);
        if d & 0xff == 0 && self.rng.chance(1, 2) {
            // the field's value is the byte-swapped checksum; if that is below 256 a 1-byte unsigned is a valid encoding
            out.push(0x62);
            out.push((d >> 8) as u8);
        } else {
            out.push(0x63);
            out.push(d as u8);
            out.push((d >> 8) as u8);
        }
        out.push(0x00);
        format!("[{},{},{},{}]", tid, g, a, body)
    }
    pub fn file(&mut self) -> (Vec<u8>, String) {
        let mut out = vec![];
        let nm = match self.rng.below(6) {
            0 => 0,
            1 => 1,
            2 => 2,
            _ => 3,
        };
        let mut ms = vec![];
        for k in 0..nm {
            let kind = if nm == 3 { k } else { self.rng.below(3) };
            let kind = if nm == 3 { [0, 2, 1][kind] } else { kind };
            let nlist = *self.rng.pick(&[0usize, 1, 2, 3, 14, 15, 16, 17, 1, 2]);
            ms.push(self.message(&mut out, kind, nlist));
        }
        (out, format!("[{}]", ms.join(",")))
    }
}

/// Files built around get-list responses with *minimal* entries (8 bytes: `77 01 01 01 01 01 01 01`, or 9-10 byte
/// variants), where the declared list length equals, exceeds or undercuts the number of entries present; message
/// checksums are correct. Returns (bytes, declared == present).
pub fn crafted_lists() -> Vec<(Vec<u8>, bool)> {
    let mut out = vec![];
    let entries: [&[u8]; 4] = [
        &[0x77, 0x01, 0x01, 0x01, 0x01, 0x01, 0x01, 0x01],
        &[0x77, 0x01, 0x01, 0x01, 0x01, 0x01, 0x62, 0x2a, 0x01],
        &[0x77, 0x02, 0xab, 0x01, 0x01, 0x01, 0x01, 0x01, 0x01],
        &[0x77, 0x02, 0xab, 0x01, 0x01, 0x01, 0x01, 0x42, 0x01, 0x01],
    ];
    let finish = |msg: &mut Vec<u8>| {
        let d = crc16(msg);
        msg.extend([0x63, d as u8, (d >> 8) as u8, 0x00]);
    };
    let close: Vec<u8> = {
        let mut m = hex("76 02 0c 62 00 62 00 72 63 02 01 71 01");
        finish(&mut m);
        m
    };
    let open: Vec<u8> = {
        let mut m = hex("76 02 0a 62 00 62 00 72 63 01 01 76 01 01 02 31 02 32 01 01");
        finish(&mut m);
        m
    };
    for present in 0..=17usize {
        for ek in 0..entries.len() {
            for declared in [present, present + 1, present + 7, present.saturating_sub(1), 15, 16, 255] {
                if ek > 0 && !(declared == present || declared == present + 1) {
                    continue;
                }
                let mut m = hex("76 02 0b 62 00 62 00 72 63 07 01 77 01 02 53 01 01");
                m.extend(super_tlf(7, declared as u64));
                for _ in 0..present {
                    m.extend(entries[ek]);
                }
                m.extend([0x01, 0x01]);
                finish(&mut m);
                for layout in 0..3 {
                    let mut f = vec![];
                    if layout == 2 {
                        f.extend(&open);
                    }
                    f.extend(&m);
                    if layout >= 1 {
                        f.extend(&close);
                    }
                    out.push((f, declared == present));
                }
            }
        }
    }
    out
}
/// LONGLIST: get-list responses whose *message* is longer than 2^16 (2^17) bytes because of the number of entries
/// (entries of 8, 16 and 32 bytes, so that an offset that wraps at 2^16 lands on an entry boundary again), with the
/// declared list length equal to / one above / far above (2^20, 2^32-1) the number of entries present; complete
/// (trailer + checksum) or cut off behind the last entry. Returns (bytes, is a valid file).
pub fn long_lists(thorough: bool) -> Vec<(Vec<u8>, bool)> {
    let mut out = vec![];
    let e8: Vec<u8> = vec![0x77, 0x01, 0x01, 0x01, 0x01, 0x01, 0x01, 0x01];
    let e16: Vec<u8> = hex("77 07 01 00 01 08 00 ff 01 01 01 01 03 aa bb 01");
    let mut e32: Vec<u8> = hex("77 07 01 00 01 08 00 ff 01 01 01 01 81 03");
    e32.extend((1..=17).map(|k| k as u8));
    e32.push(0x01);
    assert!(e8.len() == 8 && e16.len() == 16 && e32.len() == 32);
    let sizes: Vec<(Vec<u8>, usize)> = if thorough {
        vec![(e8.clone(), 8200), (e8, 16400), (e16.clone(), 4100), (e16, 8200), (e32.clone(), 2048), (e32.clone(), 2100), (e32, 4200)]
    } else {
        vec![(e8, 8200), (e16, 4100), (e32.clone(), 2048), (e32, 4100)]
    };
    for (e, present) in sizes {
        for declared in [present as u64, present as u64 + 1, 1 << 20, 0xffff_ffff] {
            for hdr in ["76 02 0b 62 00 62 00 72 63 07 01 77 01 02 53 01 01", "76 02 aa 62 00 62 00 72 63 07 01 77 01 02 bb 01 01"] {
                let mut m = hex(hdr);
                m.extend(super_tlf(7, declared));
                for _ in 0..present {
                    m.extend(&e);
                }
                out.push((m.clone(), false)); // cut off behind the last entry
                m.extend([0x01, 0x01]);
                let d = crc16(&m);
                m.extend([0x63, d as u8, (d >> 8) as u8, 0x00]);
                out.push((m, declared == present as u64));
                if declared != present as u64 {
                    break;
                }
            }
        }
    }
    out
}
/// valid files whose checksum field uses the short encoding `62 xx` (possible when the first wire byte of the checksum is 0):
/// the transaction id is searched until the checksum allows it
pub fn crafted_short_crc() -> Vec<Vec<u8>> {
    let mut out = vec![];
    for body in ["72 63 02 01 71 01", "72 63 07 01 77 01 02 53 01 01 70 01 01", "72 63 01 01 76 01 01 02 31 02 32 01 01"] {
        let mut found = 0;
        for t in 0..=65535u32 {
            let mut m = hex("76 03");
            m.push((t >> 8) as u8);
            m.push(t as u8);
            m.extend(hex("62 00 62 00"));
            m.extend(hex(body));
            let d = crc16(&m);
            if d & 0xff == 0 {
                m.extend([0x62, (d >> 8) as u8, 0x00]);
                out.push(m);
                found += 1;
                if found == 2 {
                    break;
                }
            }
        }
    }
    // two-message files: short-crc message first / last
    if out.len() >= 2 {
        let a = out[0].clone();
        let b = out[2 % out.len()].clone();
        out.push([a.clone(), b.clone()].concat());
    }
    out
}
/// Overwrite the data of some octet strings of a valid file with content that matters to the *transport* layer (zeros
/// directly before a literal 1b1b1b1b, look-alikes of the start / end sequence, 0x1b runs of every length, zero runs),
/// then recompute the message checksums: still a valid file with the same structure. Returns false if nothing fitted.
pub fn wire_sensitive(x: &mut Vec<u8>, rng: &mut Rng) -> bool {
    const CHUNKS: [&[u8]; 12] = [
        &[0x00], &[0x00, 0x00], &[0x00, 0x00, 0x00, 0x00, 0x00], &[0x1b, 0x1b, 0x1b, 0x1b], &[0x1b], &[0x1b, 0x1b, 0x1b],
        &[0x1a], &[0x01, 0x01, 0x01, 0x01], &[0x1b, 0x1b, 0x1b, 0x1b, 0x1a, 0x00], &[0x1b, 0x1b, 0x1b, 0x1b, 0x1b], &[0x55], &[0x1a, 0x03],
    ];
    let mut any = false;
    for e in all_elems(x) {
        let (a, b) = (e.pos + e.tlf_len, e.end);
        if e.ty != 0 || b > x.len() || b < a + 5 || e.depth < 1 || rng.chance(1, 3) {
            continue;
        }
        let mut i = a;
        while i < b {
            let c = CHUNKS[rng.below(CHUNKS.len())];
            for &v in c {
                if i < b {
                    x[i] = v;
                    i += 1;
                }
            }
        }
        any = true;
    }
    if any {
        fix_crcs(x);
    }
    any
}
/// valid files in which one octet string is very long (lengths around 2^12, 2^16 and 2^17): the signature of a close
/// response, the bytes value of a list entry, the server id of an open response; length fields need 3..6 TLF bytes
pub fn long_string_files(lens: &[usize]) -> Vec<Vec<u8>> {
    let mut out = vec![];
    let finish = |msg: &mut Vec<u8>| {
        let d = crc16(msg);
        msg.extend([0x63, d as u8, (d >> 8) as u8, 0x00]);
    };
    for (n, &l) in lens.iter().enumerate() {
        let s: Vec<u8> = (0..l).map(|k| (k * 7 + 3 + n) as u8).collect();
        for kind in 0..3 {
            let mut m;
            match kind {
                0 => {
                    m = hex("76 02 0c 62 00 62 00 72 63 02 01 71");
                    m.extend(tlf(0, l as u64, 0, false));
                    m.extend(&s);
                }
                1 => {
                    m = hex("76 02 0b 62 00 62 00 72 63 07 01 77 01 02 53 01 01 71 77 02 ab 01 01 01 01");
                    m.extend(tlf(0, l as u64, 0, false));
                    m.extend(&s);
                    m.extend(hex("01 01 01"));
                }
                _ => {
                    m = hex("76 02 0a 62 00 62 00 72 63 01 01 76 01 01 02 31");
                    m.extend(tlf(0, l as u64, 0, false));
                    m.extend(&s);
                    m.extend(hex("01 01"));
                }
            }
            finish(&mut m);
            out.push(m);
        }
    }
    out
}
pub fn tlf_of(ty: u8, len: u64) -> Vec<u8> {
    super_tlf(ty, len)
}
fn super_tlf(ty: u8, len: u64) -> Vec<u8> {
    tlf(ty, len, 0, true)
}

// ------------------------------------------------------------------------------------------------
// mutation families
// ------------------------------------------------------------------------------------------------
/// valid re-encodings of `p` in which one single-byte TLF is stretched to n bytes with zero leading length nibbles
pub fn long_tlf_variants(p: &[u8], ns: &[usize]) -> Vec<Vec<u8>> {
    let mut out = vec![];
    for e in all_elems(p) {
        if e.ty == 0xff || e.tlf_len != 1 {
            continue;
        }
        for &n in ns {
            let b0 = p[e.pos];
            let ty = (b0 >> 4) & 7;
            let val: u64 = if ty == 7 { (b0 & 15) as u64 } else { (b0 & 15) as u64 - 1 + n as u64 };
            if ty == 4 {
                continue; // multi-byte boolean TLFs are reserved
            }
            let mut t = vec![0x80 | (ty << 4)];
            let nn = n - 1;
            for k in 0..nn {
                let shift = 4 * (nn - 1 - k);
                let nib = if shift >= 64 { 0 } else { ((val >> shift) & 15) as u8 };
                t.push(if k + 1 < nn { 0x80 } else { 0 } | nib);
            }
            let mut q = p.to_vec();
            q.splice(e.pos..e.pos + 1, t);
            fix_crcs(&mut q);
            out.push(q);
        }
    }
    out
}

/// `f(x, class)`; class 0 valid base, 1 structural corruption, 2 data corruption, 3 truncation/extension, 4 bomb, 5 random multi
pub fn parser_inputs(tier: &str, rng: &mut Rng, f: &mut dyn FnMut(&[u8], u8)) {
    let thorough = tier == "thorough";
    let mut bases: Vec<Vec<u8>> = corpus_payloads();
    bases.extend(crafted_short_crc());
    bases.sort_by_key(|b| b.len());
    // generated valid files
    let ngen = if thorough { 300 } else { 60 };
    for k in 0..ngen {
        let mut g = Gen { rng, nonminimal: k % 2 == 0, in_opt: false };
        let (x, _) = g.file();
        bases.push(x);
    }
    if !thorough {
        // quick tier: one base per structural shape (sequence of TLF types / lengths), the data bytes differ only
        let mut seen = std::collections::HashSet::new();
        bases.retain(|b| {
            let sig: Vec<(u8, u64, usize)> = all_elems(b).iter().map(|e| (e.ty, if e.ty == 7 { e.len } else { e.len.min(3) }, e.depth)).collect();
            seen.insert(sig)
        });
    }
    let nfull = if thorough { 12 } else { 6 };
    for (bi, p) in bases.iter().enumerate() {
        f(p, 0);
        let elems = all_elems(p);
        let mut is_tlf = vec![false; p.len()];
        for e in &elems {
            for k in 0..e.tlf_len {
                if e.pos + k < p.len() {
                    is_tlf[e.pos + k] = true;
                }
            }
        }
        // truncations and extensions
        for t in 0..p.len() {
            f(&p[..t], 3);
        }
        for ext in [vec![0u8], vec![0x76], vec![0x01], vec![0x00, 0x00]] {
            let mut q = p.clone();
            q.extend(ext);
            f(&q, 3);
        }
        // tails at every message boundary: what a caller who did not strip the transport layer (or concatenated buffers) passes
        let tails: [&[u8]; 9] = [
            &[0x1b, 0x1b, 0x1b, 0x1b, 0x1a, 0x00, 0x12, 0x34],
            &[0x00, 0x1b, 0x1b, 0x1b, 0x1b, 0x1a, 0x01, 0x12, 0x34],
            &[0x00, 0x00, 0x00, 0x1b, 0x1b, 0x1b, 0x1b, 0x1a, 0x03, 0x12, 0x34],
            &[0x1b, 0x1b, 0x1b, 0x1b],
            &[0x1b, 0x1b, 0x1b, 0x1b, 1, 1, 1, 1],
            &[0x76, 0x05],
            &[0xff],
            &[0, 0, 0, 0, 0],
            &[0x1a],
        ];
        let mut cuts: Vec<usize> = elems.iter().filter(|e| e.depth == 0 && e.pos > 0).map(|e| e.pos).collect();
        cuts.push(p.len());
        cuts.dedup();
        for c in cuts {
            for t in tails.iter() {
                let mut q = p[..c].to_vec();
                q.extend(*t);
                q.extend(&p[c..]);
                f(&q, 3);
            }
        }
        // truncation at message boundaries + extension by a whole valid message is still valid: covered by class 0 of others
        // single-byte substitutions, with and without checksum fix-up
        let full = bi < nfull;
        let light: [u8; 10] = [0, 1, 0x7f, 0x80, 0xff, 0x62, 0x72, 0x77, 0x52, 0x42];
        for i in 0..p.len() {
            let vals: Vec<u8> = if full || (is_tlf[i] && bi % (if thorough { 3 } else { 8 }) == 0) {
                (0..=255u8).collect()
            } else {
                let mut v = light.to_vec();
                v.push(p[i] ^ 1);
                v.push(p[i] ^ 0x80);
                v.push(p[i].wrapping_add(1));
                v.push(p[i].wrapping_sub(1));
                v.push(p[i] ^ 0x10);
                v
            };
            for v in vals {
                if v == p[i] {
                    continue;
                }
                let mut q = p.clone();
                q[i] = v;
                let class = if is_tlf[i] { 1 } else { 2 };
                f(&q, class);
                if full || is_tlf[i] || i % 3 == 0 {
                    let mut q2 = q.clone();
                    if fix_crcs(&mut q2) && q2 != q {
                        f(&q2, class);
                    }
                }
            }
        }
        // element-level structural edits with checksum fix-up: delete / duplicate an element, change a list arity
        if full || bi % (if thorough { 2 } else { 4 }) == 0 {
            for e in &elems {
                if e.depth == 0 {
                    continue;
                }
                let mut q = p.clone();
                q.drain(e.pos..e.end.min(p.len()));
                fix_crcs(&mut q);
                f(&q, 1);
                let mut q = p.clone();
                let dup: Vec<u8> = p[e.pos..e.end.min(p.len())].to_vec();
                for (k, b) in dup.iter().enumerate() {
                    q.insert(e.pos + k, *b);
                }
                fix_crcs(&mut q);
                f(&q, 1);
                if e.ty == 7 && e.tlf_len == 1 {
                    for d in [1i32, -1] {
                        let n = (p[e.pos] & 15) as i32 + d;
                        if (0..16).contains(&n) {
                            let mut q = p.clone();
                            q[e.pos] = (p[e.pos] & 0xf0) | n as u8;
                            fix_crcs(&mut q);
                            f(&q, 1);
                        }
                    }
                }
                if e.ty == 7 {
                    // the same list with a longer TLF whose declared arity is congruent to the real one modulo 16 / 256 / 4096 / 65536
                    let arity = e.len;
                    for (nbytes, add) in [(2usize, 16u64), (3, 256), (3, 512), (3, 0xf00), (4, 4096), (5, 65536)] {
                        let v = arity + add;
                        if v >= 1u64 << (4 * nbytes) {
                            continue;
                        }
                        let mut t = vec![];
                        for k in 0..nbytes {
                            let nib = ((v >> (4 * (nbytes - 1 - k))) & 15) as u8;
                            t.push((if k + 1 < nbytes { 0x80 } else { 0 }) | (if k == 0 { 0x70 } else { 0 }) | nib);
                        }
                        let mut q = p.clone();
                        q.splice(e.pos..e.pos + e.tlf_len, t);
                        // the walker cannot follow the aliased arity, so the checksum of the enclosing message is
                        // recomputed from the spans of the original file, shifted by the growth of the TLF
                        let delta = nbytes as isize - e.tlf_len as isize;
                        if let Some((i0, c, _)) = message_spans(p).into_iter().find(|(i0, c, _)| *i0 <= e.pos && e.pos < *c) {
                            let c2 = (c as isize + delta) as usize;
                            if c2 + 2 < q.len() && q[c2] == 0x63 {
                                let d = crc16(&q[i0..c2]);
                                q[c2 + 1] = d as u8;
                                q[c2 + 2] = (d >> 8) as u8;
                            }
                        }
                        f(&q, 1);
                    }
                }
                // replace by an optional marker / by an empty octet string
                let mut q = p.clone();
                q.splice(e.pos..e.end.min(p.len()), [0x01]);
                fix_crcs(&mut q);
                f(&q, 1);
            }
        }
        // declared-length bombs: replace every TLF by one declaring 2^k-1, 2^k, ... (same type)
        if full || bi % (if thorough { 5 } else { 16 }) == 1 {
            for e in &elems {
                if e.ty == 0xff {
                    continue;
                }
                let ks: &[u32] = if thorough { &[4, 8, 12, 16, 20, 24, 28, 31, 32] } else { &[8, 16, 28, 32] };
                for k in ks.iter().cloned() {
                    for delta in [-1i64, 0] {
                        let v: u64 = ((1u64 << k) as i64 + delta) as u64;
                        for v in (if thorough || delta < 0 { vec![v, v.wrapping_sub(1)] } else { vec![v] }) {
                            if v > 0xffff_ffff {
                                continue;
                            }
                            let mut t = vec![];
                            let nn = ((64 - v.leading_zeros() as usize) + 3) / 4;
                            let nn = nn.max(1);
                            for j in 0..nn {
                                let nib = ((v >> (4 * (nn - 1 - j))) & 15) as u8;
                                t.push(if j + 1 < nn { 0x80 } else { 0 } | if j == 0 { e.ty << 4 } else { 0 } | nib);
                            }
                            let mut q = p.clone();
                            q.splice(e.pos..e.pos + e.tlf_len, t);
                            f(&q, 4);
                            if fix_crcs(&mut q) {
                                f(&q, 4);
                            }
                        }
                    }
                }
                // beyond 64 bits: 16..33 TLF bytes of significant nibbles (an accumulator wider than 32 bits overflows too)
                for nb in [16usize, 17, 18, 24, 33] {
                    for (first, fill, last) in [(0x0fu8, 0x0fu8, 0x0fu8), (0x01, 0x00, 0x06), (0x01, 0x00, 0x00)] {
                        let mut t = vec![0x80 | (e.ty << 4) | first];
                        for _ in 0..nb - 2 {
                            t.push(0x80 | fill);
                        }
                        t.push(last);
                        let mut q = p.clone();
                        q.splice(e.pos..e.pos + e.tlf_len, t);
                        f(&q, 4);
                    }
                }
                // beyond 32 bits: 9..12 TLF bytes
                for extra in [9usize, 10, 12] {
                    let mut t = vec![0x80 | (e.ty << 4) | 1];
                    for _ in 0..extra - 2 {
                        t.push(0x80);
                    }
                    t.push(0x0b);
                    let mut q = p.clone();
                    q.splice(e.pos..e.pos + e.tlf_len, t);
                    f(&q, 4);
                }
            }
        }
    }
    // checksums recomputed with the wrong algorithm / byte order (everything but CRC-16/X.25 little-endian must be rejected)
    for p in bases.iter().take(if thorough { 60 } else { 20 }) {
        for (i0, c, _) in message_spans(p) {
            if p[c] != 0x63 || c + 2 >= p.len() {
                continue;
            }
            for v in foreign_crcs(&p[i0..c]) {
                if v == [p[c + 1], p[c + 2]] {
                    continue;
                }
                let mut q = p.clone();
                q[c + 1] = v[0];
                q[c + 2] = v[1];
                f(&q, 1);
            }
        }
    }
    // crafted lists of minimal entries with correct / wrong declared lengths
    for (x, valid) in crafted_lists() {
        f(&x, if valid { 0 } else { 1 });
        for t in [x.len() - 1, x.len() - 4] {
            f(&x[..t], 3);
        }
    }
    // very long type-length fields (255 .. 300 TLF bytes, zero length nibbles) in front of every element of a few files
    for p in bases.iter().take(if thorough { 12 } else { 3 }) {
        for e in all_elems(p) {
            if e.ty == 0xff || e.tlf_len != 1 {
                continue;
            }
            for n in [17usize, 254, 255, 256, 257, 300] {
                // same type, same declared value (for non-lists the value includes the TLF size, so it is re-based)
                let b0 = p[e.pos];
                let ty = (b0 >> 4) & 7;
                let val: u64 = if ty == 7 { (b0 & 15) as u64 } else { (b0 & 15) as u64 - 1 + n as u64 };
                let mut t = vec![0x80 | (ty << 4)];
                let nn = n - 1;
                for k in 0..nn {
                    let shift = 4 * (nn - 1 - k);
                    let nib = if shift >= 64 { 0 } else { ((val >> shift) & 15) as u8 };
                    t.push(if k + 1 < nn { 0x80 } else { 0 } | nib);
                }
                let mut q = p.clone();
                q.splice(e.pos..e.pos + 1, t);
                fix_crcs(&mut q);
                f(&q, 4);
            }
        }
    }
    // random multi-byte mutations
    let nrand = if thorough { 80000 } else { 20000 };
    for _ in 0..nrand {
        let p = &bases[rng.below(bases.len())];
        if p.is_empty() {
            continue;
        }
        let mut q = p.clone();
        for _ in 0..1 + rng.below(3) {
            if q.is_empty() {
                break;
            }
            let pos = rng.below(q.len());
            match rng.below(10) {
                0..=4 => q[pos] = *rng.pick(&[0u8, 1, 0x7f, 0x80, 0xff, q[pos] ^ 1, q[pos] ^ 0x80, q[pos].wrapping_add(1), 0x62, 0x72, 0x77, 0x52, 0x42, 0x65, 0x01]),
                5 => {
                    q.remove(pos);
                }
                6 => q.insert(pos, *rng.pick(&[0u8, 1, 0x62, 0x52, 0x80, 0x81, 0xff, 0x76])),
                7 => {
                    let other = &bases[rng.below(bases.len())];
                    if !other.is_empty() {
                        let a = rng.below(other.len());
                        let b = (a + rng.below(40)).min(other.len());
                        let ins: Vec<u8> = other[a..b].to_vec();
                        q.splice(pos..pos, ins);
                    }
                }
                8 => {
                    let n = 1 + rng.below(8);
                    let mut t = vec![0x81 + rng.below(2) as u8];
                    t.extend(std::iter::repeat(0x80).take(n));
                    t.push(rng.below(16) as u8);
                    q.splice(pos..pos + 1, t);
                }
                _ => q.truncate(pos),
            }
        }
        f(&q, 5);
        if rng.chance(2, 3) {
            let mut q2 = q.clone();
            if fix_crcs(&mut q2) {
                f(&q2, 5);
            }
        }
    }
}
