//! Record emitters for the decoder properties.
use crate::common::*;
use crate::fe::*;
use crate::tr::*;
use std::collections::HashSet;
use std::hash::{Hash, Hasher};

/// sink that de-duplicates on a key but writes a line carrying the first stimulus seen for that key
pub struct KeyedSink {
    pub sink: Sink,
    seen: HashSet<u64>,
    pub raw: u64,
}
impl KeyedSink {
    pub fn create(path: &str) -> Self {
        KeyedSink { sink: Sink::create(path), seen: HashSet::new(), raw: 0 }
    }
    pub fn put(&mut self, key: &str, line: impl FnOnce() -> String) {
        self.raw += 1;
        let mut h = std::collections::hash_map::DefaultHasher::new();
        key.hash(&mut h);
        (key.len(), 77u8).hash(&mut h);
        if self.sink.needles.is_some() {
            self.sink.put(line()); // replay mode: no de-duplication, the sink filters by stimulus
        } else if self.seen.insert(h.finish()) {
            self.sink.put(line());
        }
    }
    pub fn finish(self, fam: &str, extra: &str) {
        let raw = self.raw;
        let (_, distinct) = self.sink.finish();
        println!("{{\"family\":\"{}\",\"raw\":{},\"distinct\":{}{}}}", fam, raw, distinct, extra);
    }
}

fn has_calls(ops: &[u32]) -> bool {
    ops.iter().any(|o| *o >= 256)
}

fn fams_for(tier: &str, which: &str) -> Vec<&'static str> {
    let _ = tier;
    match which {
        "c02" => vec!["adv", "inframe", "rawcrc", "padx", "nearstart", "hist", "corpus", "mut"],
        "c17" => vec!["adv", "inframe", "rawcrc", "padx", "nearstart", "hist", "histframe", "noise", "corpus", "mut"],
        "c15" => vec!["adv", "inframe", "rawcrc", "padx", "nearstart", "noise", "corpus", "mut"],
        "c14" => vec!["hist", "histframe", "inframe", "rawcrc", "padx", "adv3", "corpus", "mut"],
        "c05" => vec!["hist", "histframe", "inframe", "rawcrc", "padx", "noise", "corpus", "mut"],
        _ => vec![],
    }
}

/// C02: one record per ok event: {"pre": tail of the consumed prefix, "m": payload, "fe": front-end id}
/// The tail keeps 2|m|+24 bytes: at least the length of any transport-v1 frame of m, so truncation cannot change
/// the verdict of IsSuffixOf(Canonical(m), pre).
pub fn cmd_c02(tier: &str, out: &str) {
    quiet_panics();
    let mut rng = Rng::new(seed());
    let mut ks = KeyedSink::create(out);
    let mut streams = 0u64;
    let mut emit = |ks: &mut KeyedSink, s: &[u8], ops: &[u32], evs: &[Ev], new_from: usize, fe: u16| {
        for e in evs {
            if e[1] == 1 && e[0] >= 0 && (e[0] as usize) > new_from {
                let m = &e[2..];
                let pos = e[0] as usize;
                let keep = 2 * m.len() + 24;
                let pre = &s[pos.saturating_sub(keep)..pos];
                let key = format!("{:?}|{:?}", pre, m);
                ks.put(&key, || format!("{{\"pre\":{},\"m\":{},\"fe\":{},\"ops\":{}}}", jarr(pre), jarr(m), fe, jarr(ops)));
            }
        }
    };
    stream_families(tier, &fams_for(tier, "c02"), &mut rng, &mut |ops, new_from| {
        streams += 1;
        let s = bytes_of(ops);
        // positions in `ops` vs positions in bytes: events carry byte positions
        let new_from_bytes = ops[..new_from].iter().filter(|o| **o < 256).count();
        let ev = run_push::<Vec<u8>>(ops, false);
        emit(&mut ks, &s, ops, &ev, new_from_bytes, 1);
        if !has_calls(ops) {
            let nfix = cap_at_least(s.len().min(48));
            emit(&mut ks, &s, ops, &run_push_n(nfix, ops, false), new_from_bytes, 2);
            // small fixed buffers: an out-of-memory error must never turn into a shortened / altered payload later on
            for cap in [1usize, 4, 6, 9] {
                if cap < s.len() {
                    emit(&mut ks, &s, ops, &run_push_n(cap, ops, false), new_from_bytes, 20 + cap as u16);
                }
            }
            // decoders built on a recycled, non-empty buffer (Decoder::from_buf): stale bytes must never show up in a payload
            emit(&mut ks, &s, ops, &run_push_from_buf::<Vec<u8>>(ops, false), new_from_bytes, 10);
            emit(&mut ks, &s, ops, &run_push_from_buf_n(nfix.max(2), ops, false), new_from_bytes, 16);
            emit(&mut ks, &s, ops, &run_stream::<Vec<u8>>(&s, 0), new_from_bytes, 4);
            emit(&mut ks, &s, ops, &run_reader_vec(&s, Src::Iter, 0), new_from_bytes, 7);
            emit(&mut ks, &s, ops, &run_reader_vec(&s, Src::Io, 0), new_from_bytes, 8);
        }
    });
    // CAPTAIL: prefix + (a lone 0x1b run / a literal escape / zeros) + a tail of 8..12 bytes, followed by a small frame,
    // through every fixed capacity 0..|p|+1: whatever happens at the out-of-memory boundary, no later "payload" may be
    // reported for bytes that are not its canonical frame (e.g. the tail of the oversized transmission)
    {
        let segs: [&[u8]; 7] = [&[0x1b, 0x55], &[0x1b, 0x1b, 0x56], &[0x1b, 0x1b, 0x1b, 0x57], &[0x1b, 0x1b, 0x1b, 0x1b], &[0x00, 0x58], &[0x00, 0x00, 0x00, 0x00, 0x00, 0x59], &[0x1b, 0x1b, 0x1b, 0x1b, 0x1b, 0x5a]];
        for k in 0..=12usize {
            for seg in segs.iter() {
                for tl in [8usize, 9, 12] {
                    let mut p: Vec<u8> = (1..=k as u8).collect();
                    p.extend(seg.iter());
                    p.extend((0..tl).map(|i| 0x61 + i as u8));
                    let mut st = frame(&p);
                    st.extend(frame(&[0x77]));
                    let ops: Vec<u32> = st.iter().map(|b| *b as u32).collect();
                    for cap in 0..=(p.len() + 1).min(48) {
                        streams += 1;
                        emit(&mut ks, &st, &ops, &run_push_n(cap, &ops, false), 0, 40);
                    }
                }
            }
        }
    }
    ks.finish("c02", &format!(",\"streams\":{}", streams));
}

/// C17: one record per stream and front-end class exposing counts:
///  {"T": bytes, "e": events incl. the final finalize / io-error / none report, "s": first stimulus}
pub fn cmd_c17(tier: &str, out: &str) {
    quiet_panics();
    let mut rng = Rng::new(seed());
    let mut ks = KeyedSink::create(out);
    let mut streams = 0u64;
    stream_families(tier, &fams_for(tier, "c17"), &mut rng, &mut |ops, _| {
        streams += 1;
        let s = bytes_of(ops);
        let ev = run_push::<Vec<u8>>(ops, true);
        let key = format!("{}|{:?}", s.len(), ev);
        ks.put(&key, || format!("{{\"T\":{},\"e\":{},\"ops\":{}}}", s.len(), jarr2(&ev), jarr(ops)));
        // small fixed buffers: an out-of-memory error is a boundary like any other error (no byte is counted twice afterwards)
        for cap in [1usize, 4, 6, 9] {
            if cap < s.len() {
                let ev = run_push_n(cap, ops, true);
                let key = format!("{}|{}|{:?}", cap, s.len(), ev);
                ks.put(&key, || format!("{{\"T\":{},\"e\":{},\"ops\":{},\"cap\":{}}}", s.len(), jarr2(&ev), jarr(ops), cap));
            }
        }
        if !has_calls(ops) && s.len() <= 400 && streams % 3 == 0 {
            // I/O errors at positions inside the stream: the count attached to the error takes part in the tiling
            for (k, p) in [(crate::rd::OTH, s.len() / 2), (crate::rd::OTH, s.len().saturating_sub(1)), (crate::rd::WB, s.len() / 3)] {
                let mut items: Vec<u32> = ops.to_vec();
                items.insert(p.min(items.len()), k);
                if k == crate::rd::WB {
                    items.insert((2 * s.len() / 3 + 1).min(items.len()), crate::rd::OTH);
                }
                let ev = crate::rd::run_faulty(&items, 0);
                let key = format!("f|{}|{:?}", s.len(), ev);
                ks.put(&key, || format!("{{\"T\":{},\"e\":{},\"items\":{},\"fe\":9}}", s.len(), jarr2(&ev), jarr(&items)));
            }
        }
        if !has_calls(ops) {
            for (src, id) in [(Src::Iter, 7u16), (Src::Io, 8)] {
                let ev = run_reader_vec(&s, src, 0);
                let key = format!("{}|{:?}", s.len(), ev);
                ks.put(&key, || format!("{{\"T\":{},\"e\":{},\"ops\":{},\"fe\":{}}}", s.len(), jarr2(&ev), jarr(ops), id));
            }
        }
    });
    // long noise runs (counter widths): RLE stimulus [[byte,count]...] then a frame / end of input
    let longs: Vec<usize> = if tier == "thorough" { vec![254, 255, 256, 65534, 65535, 65536, 65537, 131073, 1 << 20, 1 << 24] } else { vec![255, 256, 65535, 65536, 65537, 131073] };
    for n in longs {
        for (b, tail) in [(0xaau8, 0usize), (0xaa, 1), (0x1b, 0), (0xaa, 2), (0xaa, 3), (0xaa, 4), (0x00, 3)] {
            // tail 0: noise then frame; 1: noise then end of input; 2: noise, partial start sequence, then frame;
            // 3: a cut-off *transmission* of n bytes (start sequence first), then a frame; 4: the same, then end of input
            let mut s = if tail >= 3 { START.to_vec() } else { vec![] };
            s.extend(vec![b; n]);
            if b == 0x1b {
                s.push(0x55);
            }
            if tail == 2 {
                s.extend([0x1b, 0x1b, 0x1b, 0x1b, 1, 1]);
            }
            let noise_len = s.len();
            if tail != 1 && tail != 4 {
                s.extend(frame(&[0x12, 0x34]));
            }
            let ops: Vec<u32> = s.iter().map(|x| *x as u32).collect();
            let ev = run_push::<Vec<u8>>(&ops, true);
            ks.put(&format!("long{}|{}|{}", n, b, tail), || {
                format!("{{\"T\":{},\"e\":{},\"rle\":[[{},{}]],\"noise\":{},\"tail\":{}}}", s.len(), jarr2(&ev), b, n, noise_len, tail)
            });
            let ev = run_reader_vec(&s, Src::Io, 0);
            ks.put(&format!("longr{}|{}|{}", n, b, tail), || {
                format!("{{\"T\":{},\"e\":{},\"rle\":[[{},{}]],\"noise\":{},\"tail\":{},\"fe\":8}}", s.len(), jarr2(&ev), b, n, noise_len, tail)
            });
        }
    }
    ks.finish("c17", &format!(",\"streams\":{}", streams));
}

/// C15: one record per distinct set of grouped observations: {"s": stream, "obs": groups}
pub fn cmd_c15(tier: &str, out: &str) {
    quiet_panics();
    let mut rng = Rng::new(seed());
    let mut ks = KeyedSink::create(out);
    let mut streams = 0u64;
    stream_families(tier, &fams_for(tier, "c15"), &mut rng, &mut |ops, _| {
        streams += 1;
        let s = bytes_of(ops);
        let nfix = cap_at_least(s.len().min(48).max(if s.len() > 48 { s.len() } else { 0 }));
        let obs = all_frontends(&s, nfix, s.len() <= 64);
        let g = group_obs(&obs);
        ks.put(&g, || format!("{{\"s\":{},\"nfix\":{},\"obs\":{}}}", jarr(&s), nfix, g));
    });
    for (l, b) in [(65535usize, 0x55u8), (65536, 0x55), (65537, 0x00)] {
        let s = frame(&vec![b; l]);
        streams += 1;
        let nfix = cap_at_least(l);
        let obs = all_frontends(&s, nfix, false);
        let g = group_obs(&obs);
        ks.put(&g, || format!("{{\"s\":{},\"nfix\":{},\"obs\":{}}}", jarr(&s), nfix, g));
    }
    ks.finish("c15", &format!(",\"streams\":{}", streams));
}

fn shift(evs: &[Ev], from_pos: i64, from_idx: usize) -> Vec<Ev> {
    evs[from_idx..]
        .iter()
        .map(|e| {
            let mut x = e.clone();
            x[0] -= from_pos;
            x
        })
        .collect()
}

/// C14: for every boundary (ok / oom / invmsg / invesc event, finalize or reset call) inside a stream, the events
/// of the continuing decoder on the rest vs. the events of a new decoder on the rest.
///  {"cap":cap (-1 growable), "ops": stream ops, "cut": op index, "cont": events, "fresh": events}
pub fn cmd_c14(tier: &str, out: &str) {
    quiet_panics();
    let mut rng = Rng::new(seed());
    let mut ks = KeyedSink::create(out);
    let mut streams = 0u64;
    let mut pairs = 0u64;
    let caps: Vec<i64> = vec![-1, 0, 1, 2, 5];
    let mut fams = fams_for(tier, "c14");
    if tier == "thorough" {
        fams.push("adv");
    }
    let mut handle = |ks: &mut KeyedSink, ops: &[u32], new_from: usize| {
        streams += 1;
        for cap in &caps {
            let run = |o: &[u32]| if *cap < 0 { run_push::<Vec<u8>>(o, true) } else { run_push_n(*cap as usize, o, true) };
            let all = run(ops);
            // op index of each byte position: events carry byte positions; calls carry the byte position before them
            // boundaries: after event k (kinds 1,3,4,5) at byte pos p -> cut after the op that is the p-th byte;
            // after a call op (6,7): cut after that op.
            let mut byte_idx_to_op: Vec<usize> = vec![0];
            for (i, o) in ops.iter().enumerate() {
                if *o < 256 {
                    byte_idx_to_op.push(i + 1);
                }
            }
            let mut call_seen = 0usize;
            let call_ops: Vec<usize> = ops.iter().enumerate().filter(|(_, o)| **o >= 256).map(|(i, _)| i + 1).collect();
            for (k, e) in all.iter().enumerate() {
                let cut_op = match e[1] {
                    1 | 3 | 4 | 5 => byte_idx_to_op[e[0] as usize],
                    6 | 7 => {
                        call_seen += 1;
                        if call_seen > call_ops.len() {
                            continue; // the trailing finalize appended by the harness
                        }
                        call_ops[call_seen - 1]
                    }
                    _ => continue,
                };
                if cut_op >= ops.len() || cut_op <= new_from.saturating_sub(64) {
                    // (re-checking old boundaries with a longer continuation is useful; keep all)
                }
                if cut_op >= ops.len() {
                    continue;
                }
                // a disc event at the same byte as a call? not possible; events at the same position as the boundary event
                // that come *after* it in the list belong to the continuation only if they are calls.
                let cont = shift(&all, e[0], k + 1);
                let fresh = run(&ops[cut_op..]);
                pairs += 1;
                let key = format!("{:?}|{:?}", cont, fresh);
                ks.put(&key, || format!("{{\"cap\":{},\"ops\":{},\"cut\":{},\"cont\":{},\"fresh\":{}}}", cap, jarr(ops), cut_op, jarr2(&cont), jarr2(&fresh)));
            }
        }
    };
    let fams2: Vec<&str> = fams.iter().filter(|f| **f != "adv3").cloned().collect();
    stream_families(tier, &fams2, &mut rng, &mut |ops, nf| handle(&mut ks, ops, nf));
    // adv3: ADV tokens from START, depth 3, but preceded by each idle history (gives prefixes ending at a boundary)
    let al = adv_alphabet(true);
    for (_, h) in idle_histories() {
        let mut t = h.clone();
        walk(&mut t, if tier == "thorough" { 3 } else { 2 }, &al, &mut |toks, _| {
            let ops = expand(toks);
            handle(&mut ks, &ops, 0);
        });
    }
    ks.finish("c14", &format!(",\"streams\":{},\"pairs\":{}", streams, pairs));
}

/// C08: {"kind":"noise","h":history ops,"g":noise,"m":payload,"e":events relative to the end of the history}
///      {"kind":"cut","pre":cut frame prefix,"m":payload of the following frame,"e":events}
pub fn cmd_c08(tier: &str, out: &str) {
    quiet_panics();
    let mut ks = KeyedSink::create(out);
    let mut n = 0u64;
    let k = if tier == "thorough" { 9 } else { 7 };
    let bytes = [0x1bu8, 1, 0x55];
    let frames: Vec<Vec<u8>> = vec![vec![], vec![0x55], vec![0x1b], vec![0, 0], vec![0x1b, 0x1b, 0x1b, 0x1b, 1, 1, 1, 1]];
    let mut noises: Vec<Vec<u8>> = vec![];
    for len in 0..=k {
        for idx in 0..bytes.len().pow(len as u32) {
            noises.push(seq_by_index(&bytes, len, idx));
        }
    }
    // random noise over all 256 values, and longer partial start sequences
    let mut rng = Rng::new(seed());
    for _ in 0..(if tier == "thorough" { 20000 } else { 2000 }) {
        let l = rng.below(40);
        let mut g: Vec<u8> = (0..l).map(|_| if rng.chance(1, 3) { *rng.pick(&[0x1bu8, 1, 0x1a, 0]) } else { rng.byte() }).collect();
        if rng.chance(1, 2) {
            let cut = rng.below(8);
            g.extend(&START[..cut]);
        }
        noises.push(g);
    }
    for (_, h) in idle_histories() {
        let hops = expand(&h);
        let hbytes = hops.iter().filter(|o| **o < 256).count() as i64;
        for g in &noises {
            for m in &frames {
                n += 1;
                let mut ops = hops.clone();
                ops.extend(g.iter().map(|b| *b as u32));
                ops.extend(frame(m).iter().map(|b| *b as u32));
                for fe in [1u16, 3, 7] {
                    let ev: Vec<Ev> = match fe {
                        1 => {
                            let all = run_push::<Vec<u8>>(&ops, true);
                            let idx = all.iter().position(|e| e[0] > hbytes || (e[0] == hbytes && false)).unwrap_or(all.len());
                            // events strictly after the history (calls inside the history carry pos <= hbytes)
                            shift(&all, hbytes, idx)
                        }
                        _ => {
                            if has_calls(&hops) || fe == 3 && !h.is_empty() {
                                continue;
                            }
                            let s = bytes_of(&ops);
                            let all = if fe == 3 { run_decode(&s) } else { run_reader_vec(&s, Src::Iter, 0) };
                            if fe == 7 {
                                let idx = all.iter().position(|e| e[0] > hbytes).unwrap_or(all.len());
                                shift(&all, hbytes, idx)
                            } else {
                                all
                            }
                        }
                    };
                    let key = format!("{}|{:?}|{:?}|{:?}", fe, g, m, ev);
                    ks.put(&key, || format!("{{\"kind\":1,\"fe\":{},\"h\":{},\"g\":{},\"m\":{},\"e\":{}}}", fe, jarr(&hops), jarr(g), jarr(m), jarr2(&ev)));
                }
            }
        }
    }
    // very long noise (2^16 - 1, 2^16, beyond): the reported noise length must stay exact and the frame must follow
    {
        let lens: &[usize] = if tier == "thorough" { &[65535, 65536, 65537, 70001, 98304, 131071, 131072] } else { &[65535, 65536, 70001] };
        let hists: Vec<Vec<u32>> = vec![vec![], frame(&[0x55]).iter().map(|b| *b as u32).collect()];
        for &l in lens {
            for kind in 0..2 {
                let g: Vec<u8> = (0..l).map(|i| if kind == 0 { 0x55 } else if i % 5 == 4 { 0x00 } else { 0x1b }).collect();
                for hops in &hists {
                    let hbytes = hops.len() as i64;
                    let m: Vec<u8> = vec![0x55];
                    n += 1;
                    let mut ops = hops.clone();
                    ops.extend(g.iter().map(|b| *b as u32));
                    ops.extend(frame(&m).iter().map(|b| *b as u32));
                    for fe in [1u16, 3, 7] {
                        if fe == 3 && !hops.is_empty() {
                            continue;
                        }
                        let all = match fe {
                            1 => run_push::<Vec<u8>>(&ops, true),
                            3 => run_decode(&bytes_of(&ops)),
                            _ => run_reader_vec(&bytes_of(&ops), Src::Iter, 0),
                        };
                        let ev = if fe == 3 {
                            all
                        } else {
                            let idx = all.iter().position(|e| e[0] > hbytes).unwrap_or(all.len());
                            shift(&all, hbytes, idx)
                        };
                        let key = format!("long{}|{}|{}|{}|{:?}", fe, l, kind, hbytes, ev);
                        ks.put(&key, || format!("{{\"kind\":1,\"fe\":{},\"h\":{},\"g\":{},\"m\":{},\"e\":{}}}", fe, jarr(hops), jarr(&g), jarr(&m), jarr2(&ev)));
                    }
                }
            }
        }
    }
    // histories that end in an out-of-memory error of a fixed buffer (ArrayBuf<8>), at every site that can run out of
    // memory: an ordinary data byte, the flush of withheld zeros, the fifth zero of a run, a literal escape, the flush at
    // the end sequence. The decoder must be idle afterwards (the monitor establishes that with the spec's decoder, cap 8).
    {
        let st = |v: &[u8]| -> Vec<u32> { START.iter().chain(v.iter()).map(|b| *b as u32).collect() };
        let mut hs: Vec<Vec<u32>> = vec![
            st(&[0x55; 9]),
            st(&[0x55, 0x55, 0x55, 0x55, 0x55, 0x55, 0x55, 0x55, 0x00, 0x99]),
            st(&[0x55, 0x55, 0x55, 0x55, 0x55, 0x55, 0x55, 0x55, 0, 0, 0, 0, 0]),
            st(&[0x55, 0x55, 0x55, 0x55, 0x55, 0x55, 0x1b, 0x1b, 0x1b, 0x1b, 0x1b, 0x1b, 0x1b, 0x1b]),
            st(&[0x55, 0x55, 0x55, 0x55, 0x55, 0x55, 0x55, 0x1b, 0x1b, 0x99]),
        ];
        hs.push(frame(&[0x55, 0x55, 0x55, 0x55, 0x55, 0x55, 0x55, 0x55, 0x00]).iter().map(|b| *b as u32).collect());
        hs.push(frame(&[0x55, 0x55, 0x55, 0x55, 0x55, 0x55, 0x55, 0x00, 0x00, 0x00, 0x00, 0x00]).iter().map(|b| *b as u32).collect());
        let small: Vec<&Vec<u8>> = noises.iter().filter(|g| g.len() <= 4).collect();
        for hops in &hs {
            let hbytes = hops.len() as i64;
            for g in small.iter().cloned().chain(noises.iter().rev().take(200)) {
                for m in &frames {
                    n += 1;
                    let mut ops = hops.clone();
                    ops.extend(g.iter().map(|b| *b as u32));
                    ops.extend(frame(m).iter().map(|b| *b as u32));
                    let all = run_push_n(8, &ops, true);
                    let idx = all.iter().position(|e| e[0] > hbytes).unwrap_or(all.len());
                    let ev = shift(&all, hbytes, idx);
                    let key = format!("2|{:?}|{:?}|{:?}|{:?}", hops, g, m, ev);
                    ks.put(&key, || format!("{{\"kind\":1,\"fe\":2,\"cap\":8,\"h\":{},\"g\":{},\"m\":{},\"e\":{}}}", jarr(hops), jarr(g), jarr(m), jarr2(&ev)));
                }
            }
        }
    }
    // cut family: every prefix of frames (the monitor evaluates the "no escape in progress" antecedent itself)
    let pays: Vec<Vec<u8>> = {
        let mut v = vec![vec![0x55, 0x66, 0x77], vec![0x55, 0, 0, 0, 0, 0], vec![0x1b, 0x1b, 0x1b, 0x1b, 0x55], vec![0x55, 0x1b, 0x1b, 0x66, 0, 0x1b], vec![0x55; 9], vec![], vec![0, 0, 0], vec![0x1b; 9], vec![1, 1, 1, 1, 0x1b, 0x1b, 0x1b, 0x1b, 1, 1, 1, 1]];
        let alpha = [0x1bu8, 0, 0x55, 1];
        let kk = if tier == "thorough" { 5 } else { 4 };
        for idx in 0..alpha.len().pow(kk as u32) {
            v.push(seq_by_index(&alpha, kk, idx));
        }
        v
    };
    for m in &pays {
        let f = frame(m);
        for c in 0..f.len() {
            for m2 in [vec![], vec![0x42u8, 0], vec![0x1b]] {
                n += 1;
                let mut s = f[..c].to_vec();
                s.extend(frame(&m2));
                let ops: Vec<u32> = s.iter().map(|b| *b as u32).collect();
                let ev = run_push::<Vec<u8>>(&ops, true);
                let key = format!("cut|{:?}|{:?}|{:?}", &f[..c], m2, ev);
                ks.put(&key, || format!("{{\"kind\":2,\"fe\":1,\"pre\":{},\"m\":{},\"e\":{}}}", jarr(&f[..c]), jarr(&m2), jarr2(&ev)));
            }
        }
    }
    ks.finish("c08", &format!(",\"cases\":{}", n));
}

/// C16: {"m":payload,"cap":N,"f":follow payload,"fe":id,"e":events on frame(m) ++ frame(f)}
pub fn cmd_c16(tier: &str, out: &str) {
    quiet_panics();
    let mut ks = KeyedSink::create(out);
    let mut n = 0u64;
    let mut pays: Vec<Vec<u8>> = vec![];
    let alpha = [0x1bu8, 0, 0x55];
    let k = if tier == "thorough" { 8 } else { 6 };
    for len in 0..=k {
        for idx in 0..alpha.len().pow(len as u32) {
            pays.push(seq_by_index(&alpha, len, idx));
        }
    }
    // tails of zero runs / 1b runs / literal escapes at larger sizes
    for l in [9usize, 12, 15, 16, 17, 23, 31, 32, 33, 40, 47] {
        for tail in [vec![0u8, 0, 0, 0, 0], vec![0, 0, 0], vec![0x1b, 0x1b, 0x1b], vec![0x1b, 0x1b, 0x1b, 0x1b], vec![0x1b, 0x1b, 0x1b, 0x1b, 0x1b], vec![0, 0x1b, 0, 0x1b], vec![0x55]] {
            if tail.len() <= l {
                let mut p = vec![0x42u8; l - tail.len()];
                p.extend(&tail);
                pays.push(p);
            }
        }
    }
    let mut rng = Rng::new(seed());
    for _ in 0..(if tier == "thorough" { 3000 } else { 300 }) {
        let l = rng.below(47);
        pays.push((0..l).map(|_| *rng.pick(&[0x1bu8, 0x1b, 0, 0, 0x55, 1, 0x1a])).collect());
    }
    let follow: Vec<u8> = vec![];
    for m in &pays {
        let mut s = frame(m);
        s.extend(frame(&follow));
        let ops: Vec<u32> = s.iter().map(|b| *b as u32).collect();
        let lo = if m.len() > 10 && tier != "thorough" { m.len().saturating_sub(6) } else { 0 };
        for cap in (lo..=m.len() + 1).filter(|c| *c <= 48) {
            for fe in [2u16, 5, 10, 16] {
                if fe == 16 && cap < 2 {
                    continue; // the recycled buffer is pre-filled with two stale bytes
                }
                n += 1;
                let ev = match fe {
                    2 => run_push_n(cap, &ops, true),
                    16 => run_push_from_buf_n(cap, &ops, true),
                    5 => run_stream_n(cap, &s, 0),
                    _ => run_reader_static_n(cap, &s, Src::Iter, 0),
                };
                let key = format!("{}|{:?}|{}|{:?}", fe, m, cap, ev);
                ks.put(&key, || format!("{{\"g\":[],\"m\":{},\"cap\":{},\"f\":{},\"fe\":{},\"e\":{}}}", jarr(m), cap, jarr(&follow), fe, jarr2(&ev)));
                if fe == 16 || (fe == 2 && m.len() % 3 == 0) {
                    // the same with one noise byte in front of the first frame
                    let mut ops2 = vec![0xffu32];
                    ops2.extend(&ops);
                    let ev = if fe == 16 { run_push_from_buf_n(cap, &ops2, true) } else { run_push_n(cap, &ops2, true) };
                    let key = format!("g{}|{:?}|{}|{:?}", fe, m, cap, ev);
                    ks.put(&key, || format!("{{\"g\":[255],\"m\":{},\"cap\":{},\"f\":{},\"fe\":{},\"e\":{}}}", jarr(m), cap, jarr(&follow), fe, jarr2(&ev)));
                }
            }
        }
    }
    // default reader buffer (8 KiB) and large instantiated capacities
    for (l, cap, fe) in [(8191usize, 8192usize, 12u16), (8192, 8192, 12), (8193, 8192, 12), (8192, 8191, 10), (8192, 8192, 10), (8192, 8193, 10), (255, 255, 2), (256, 255, 2), (256, 256, 2), (257, 256, 2), (1024, 1024, 5), (1025, 1024, 5),
        // 2^16 is a boundary for every length the code carries: fixed buffers of 2^16 and more bytes, exactly full and overflowing
        (65535, 65535, 2), (65536, 65536, 2), (65537, 65537, 5), (65541, 65541, 10), (65536, 65535, 5), (65537, 65536, 2), (70000, 66000, 2), (66001, 66000, 10)] {
        for fill in [0x55u8, 0x00, 0x1b] {
            if l > 60000 && fill != 0x55 {
                continue;
            }
            n += 1;
            let m = vec![fill; l];
            let mut s = frame(&m);
            s.extend(frame(&follow));
            let ops: Vec<u32> = s.iter().map(|b| *b as u32).collect();
            let ev = match fe {
                12 => run_reader_default(&s, Src::Iter, 0),
                2 => run_push_n(cap, &ops, true),
                5 => run_stream_n(cap, &s, 0),
                _ => run_reader_static_n(cap, &s, Src::Iter, 0),
            };
            ks.put(&format!("big|{}|{}|{}|{}", l, cap, fe, fill), || format!("{{\"g\":[],\"m\":{},\"cap\":{},\"f\":{},\"fe\":{},\"e\":{}}}", jarr(&m), cap, jarr(&follow), fe, jarr2(&ev)));
        }
    }
    ks.finish("c16", &format!(",\"cases\":{}", n));
}

/// C05: {"cap":cap,"ops":ops ++ FIN ++ frame(<<>>) ++ FIN,"n0":len of the original ops,"e":events}
pub fn cmd_c05(tier: &str, out: &str) {
    quiet_panics();
    let mut rng = Rng::new(seed());
    let mut ks = KeyedSink::create(out);
    let mut streams = 0u64;
    let caps: Vec<i64> = vec![-1, 0, 1, 2, 3, 8];
    let tail: Vec<u32> = std::iter::once(OP_FIN).chain(frame(&[]).iter().map(|b| *b as u32)).chain(std::iter::once(OP_FIN)).collect();
    // heartbeat for the driver's watchdog: the stimulus in flight is written to <out>.current before it is run, so that a
    // call that never returns (C05: "never loops") can be attributed to its stimulus when the driver kills the harness
    let hb_path = format!("{}.current", out);
    let mut hb_n = 0u64;
    stream_families(tier, &fams_for(tier, "c05"), &mut rng, &mut |ops, _| {
        streams += 1;
        hb_n += 1;
        if ops.len() > 2000 || hb_n % 8 == 0 {
            let _ = std::fs::write(&hb_path, format!("{{\"cap\":-5,\"ops\":{},\"n0\":{},\"e\":[[-1,15]],\"note\":\"harness killed by the watchdog; one of the last 8 stimuli (this is the most recent one written) did not return\"}}", jarr(ops), ops.len()));
        }
        let mut o2 = ops.to_vec();
        o2.extend(&tail);
        for cap in &caps {
            let ev = if *cap < 0 { run_push::<Vec<u8>>(&o2, false) } else { run_push_n(*cap as usize, &o2, false) };
            let key = format!("{}|{}|{:?}", cap, o2.len(), ev);
            ks.put(&key, || format!("{{\"cap\":{},\"ops\":{},\"n0\":{},\"e\":{}}}", cap, jarr(&o2), ops.len(), jarr2(&ev)));
        }
        if !has_calls(ops) {
            // other front-ends: only totality matters here (their results are compared by C15)
            let s = bytes_of(ops);
            let obs = all_frontends(&s, cap_at_least(s.len().min(48)), false);
            for (_, id, e) in obs {
                if e.iter().any(|x| x[1] == 8 || x[1] == 12) {
                    ks.put(&format!("fe{}|{:?}", id, e), || format!("{{\"cap\":-2,\"fe\":{},\"ops\":{},\"n0\":{},\"e\":{}}}", id, jarr(ops), ops.len(), jarr2(&e)));
                }
            }
        }
    });
    // long runs through push decoder, decode(), streaming and readers (counter widths); RLE description only
    let longs: Vec<usize> = if tier == "thorough" { vec![255, 256, 257, 65535, 65536, 65537, 131073, 1 << 20, 1 << 22] } else { vec![256, 65535, 65536, 65537, 1 << 20] };
    for n in longs {
        for kind in 0..4 {
            let mut s: Vec<u8> = match kind {
                0 => vec![0xaa; n],                                    // noise run
                1 => frame(&vec![0x55; n]),                            // long payload
                2 => frame(&vec![0x1b; n]),                            // long 1b run (escapes)
                _ => START.iter().cloned().chain(std::iter::repeat(0u8).take(n)).collect(), // long zero run inside an unterminated frame
            };
            s.extend(frame(&[]));
            let _ = std::fs::write(&hb_path, format!("{{\"cap\":-5,\"long\":[{},{}],\"T\":{},\"e\":[[-1,15]],\"note\":\"the harness died or was killed while running this long stimulus (kind 0 noise run, 1 long payload, 2 long 0x1b payload, 3 long zero run) through all front-ends\"}}", kind, n, s.len()));
            let obs = all_frontends(&s, cap_at_least(n.min(70000)), false);
            for (_, id, e) in obs {
                let bad = e.iter().any(|x| x[1] == 8 || x[1] == 12);
                // compress: keep only kinds and lengths
                let summary: Vec<Vec<i64>> = e.iter().map(|x| if x[1] == 1 { vec![x[0], 1, (x.len() - 2) as i64] } else { x.clone() }).collect();
                ks.put(&format!("long|{}|{}|{}|{:?}", n, kind, bad, summary), || format!("{{\"cap\":-3,\"fe\":{},\"long\":[{},{}],\"T\":{},\"e\":{}}}", id, kind, n, s.len(), jarr2(&summary)));
            }
        }
    }
    // encoders: every entry point returns normally for every payload and capacity, also when polled after the end
    let mut rng2 = Rng::new(seed() ^ 0x55);
    let pays = crate::tr::payload_family(if tier == "thorough" { "thorough" } else { "quick" }, &mut rng2);
    let mut nenc = 0u64;
    for (k, p) in pays.iter().enumerate() {
        if tier != "thorough" && p.len() <= 6 && k % 7 != 0 {
            continue;
        }
        nenc += 1;
        let kinds = crate::tr::encoder_outcomes(p);
        ks.put(&format!("enc|{:?}", kinds), || format!("{{\"cap\":-4,\"p\":{},\"e\":{}}}", jarr(p), jarr2(&kinds)));
    }
    // allocation failures: with the allocator refusing every request above `limit` bytes the growable-buffer entry
    // points return a correct result or OutOfMemory (outcome 1 / 3); an abort of the worker process is outcome 9
    let mut naf = 0u64;
    for ((kind, l, pat, limit), code) in crate::af::run(tier) {
        naf += 1;
        ks.put(&format!("af|{}|{}|{}|{}|{}", kind, l, pat, limit, code), || format!("{{\"cap\":-4,\"af\":[{},{},{},{}],\"p\":[],\"e\":[[-1,{}]]}}", kind, l, pat, limit, code));
    }
    let _ = std::fs::remove_file(&hb_path);
    ks.finish("c05", &format!(",\"streams\":{},\"encoder_payloads\":{},\"alloc_failure_cases\":{}", streams, nenc, naf));
}
