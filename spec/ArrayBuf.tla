------------------------------ MODULE ArrayBuf ------------------------------
(***************************************************************************)
(* sml_rs::util::ArrayBuf<N> (src/util.rs:79-150), implementation-shaped:  *)
(* a backing array of N cells that keeps stale bytes beyond the logical    *)
(* length `num`, next to the ideal object it must refine: a byte sequence  *)
(* bounded by N.  Operations return "ok" or "oom"; FromIter panics when    *)
(* the iterator yields more than N bytes (documented, util.rs:113-121).    *)
(* Operator module (no VARIABLES).                                         *)
(***************************************************************************)
EXTENDS Bytes

\* ---- ideal bounded vector ----------------------------------------------
IPush(v, N, b)    == IF Len(v) + 1 > N THEN [v |-> v, r |-> "oom"] ELSE [v |-> Append(v, b), r |-> "ok"]
IExtend(v, N, s)  == IF Len(v) + Len(s) > N THEN [v |-> v, r |-> "oom"] ELSE [v |-> v \o s, r |-> "ok"]
ITruncate(v, N, k) == [v |-> Take(v, Min(k, Len(v))), r |-> "ok"]
IClear(v, N)      == [v |-> <<>>, r |-> "ok"]
IFromIter(v, N, s) == IF Len(s) > N THEN [v |-> v, r |-> "panic"] ELSE [v |-> s, r |-> "ok"]

\* op encoding shared with the harness: <<1,b>> push, <<2,s..>> extend, <<3,k>> truncate, <<4>> clear, <<5,s..>> from_iter
IApply(v, N, op) ==
  CASE op[1] = 1 -> IPush(v, N, op[2])
    [] op[1] = 2 -> IExtend(v, N, Drop(op, 1))
    [] op[1] = 3 -> ITruncate(v, N, op[2])
    [] op[1] = 4 -> IClear(v, N)
    [] op[1] = 5 -> IFromIter(v, N, Drop(op, 1))

\* ---- implementation-shaped state [buf |-> array of N cells, num |-> logical length] ----
AInit(N) == [buf |-> Rep(0, N), num |-> 0]
AView(a) == Take(a.buf, a.num)                       \* Deref: only the logical prefix

APush(a, N, b) ==
  IF a.num = N THEN [a |-> a, r |-> "oom"]
  ELSE [a |-> [buf |-> [a.buf EXCEPT ![a.num + 1] = b], num |-> a.num + 1], r |-> "ok"]
AExtend(a, N, s) ==
  IF a.num + Len(s) > N THEN [a |-> a, r |-> "oom"]
  ELSE [a |-> [buf |-> [i \in 1..N |-> IF i > a.num /\ i <= a.num + Len(s) THEN s[i - a.num] ELSE a.buf[i]],
               num |-> a.num + Len(s)], r |-> "ok"]
ATruncate(a, N, k) == [a |-> [a EXCEPT !.num = Min(a.num, k)], r |-> "ok"]     \* stale bytes stay
AClear(a, N)       == [a |-> [a EXCEPT !.num = 0], r |-> "ok"]

RECURSIVE AFromIterGo(_, _, _, _)
AFromIterGo(a, N, s, i) ==
  IF i > Len(s) THEN [a |-> a, r |-> "ok"]
  ELSE LET p == APush(a, N, s[i]) IN
       IF p.r = "oom" THEN [a |-> a, r |-> "panic"] ELSE AFromIterGo(p.a, N, s, i + 1)
AFromIter(a, N, s) ==
  LET g == AFromIterGo(AInit(N), N, s, 1) IN IF g.r = "panic" THEN [a |-> a, r |-> "panic"] ELSE g

AApply(a, N, op) ==
  CASE op[1] = 1 -> APush(a, N, op[2])
    [] op[1] = 2 -> AExtend(a, N, Drop(op, 1))
    [] op[1] = 3 -> ATruncate(a, N, op[2])
    [] op[1] = 4 -> AClear(a, N)
    [] op[1] = 5 -> AFromIter(a, N, Drop(op, 1))

ResCode(r) == IF r = "ok" THEN 0 ELSE IF r = "oom" THEN 1 ELSE 8

\* expected observations of an op sequence on the ideal vector: <<<<code, contents..>>, ...>>
RECURSIVE IdealObs(_, _, _, _, _)
IdealObs(v, N, ops, k, acc) ==
  IF k > Len(ops) THEN acc
  ELSE LET x == IApply(v, N, ops[k]) IN IdealObs(x.v, N, ops, k + 1, Append(acc, <<ResCode(x.r)>> \o x.v))
=============================================================================
