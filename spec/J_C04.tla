---- MODULE J_C04 ----
EXTENDS StreamParser, Json, IOUtils, TLC
(* C04: whatever a parser returns as data equals what the independent reading of the grammar extracts from the same
   bytes (and that reading accepts them). Rejections by the implementation cannot violate C04. *)
StreamOk(ev) == LET ra == Reassemble(ev) IN ra.wf /\ ra.err = <<>> /\ ~ra.open /\ \A k \in 1..Len(ev) : ev[k][1] \in {1, 2, 3}
Mon(r) ==
  LET o == ParseFile(r.x) IN
  /\ (r.c[1] = 1 => o.ok /\ r.c = <<1, o.v>>)
  /\ (StreamOk(r.ev) => o.ok /\ Reassemble(r.ev).msgs = o.v)

\* ---- batch judge loop (generated boilerplate, see bin/vf) ---------------
Recs == ndJsonDeserialize(IOEnv.VF_TRACE)
NR == Len(Recs)
CH == 64
VARIABLES ch, i
jvars == <<ch, i>>
JInit == ch \in 1..CH /\ i = ch
JStep == /\ i <= NR
         /\ IF Mon(Recs[i]) THEN TRUE ELSE PrintT(<<"REJECT", i>>)
         /\ i' = i + CH /\ UNCHANGED ch
JSpec == JInit /\ [][JStep]_jvars
=============================================================================
