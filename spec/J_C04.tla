---- MODULE J_C04 ----
EXTENDS StreamParser, Json, IOUtils, TLC
(* C04: whatever a parser returns as data equals what the independent reading of the grammar extracts from the same
   bytes (and that reading accepts them). Rejections by the implementation cannot violate C04. *)
\* the streaming parser "returns data" when its iteration ends without an error item: then the input must be a valid
\* file and the events must reassemble - completely, no message left open - to what the grammar extracts
NoErrorItem(ev) == \A k \in 1..Len(ev) : ev[k][1] \in {1, 2, 3}
Mon(r) ==
  LET o == ParseFile(r.x) ra == Reassemble(r.ev) IN
  /\ (r.c[1] = 1 => o.ok /\ r.c = <<1, o.v>>)
  /\ (NoErrorItem(r.ev) => o.ok /\ ra.wf /\ ra.err = <<>> /\ ~ra.open /\ ra.msgs = o.v)

\* ---- batch judge loop (generated boilerplate, see bin/vf) ---------------
Recs == ndJsonDeserialize(IOEnv.VF_TRACE)
NR == Len(Recs)
CH == 64
VARIABLES ch, i
jvars == <<ch, i>>
JInit == ch \in 1..CH /\ i = ch
JStep == /\ i <= NR
         /\ IF Mon(Recs[i]) THEN TRUE ELSE PrintT(<<"REJECT", i>>)
         /\ i' = i + CH /\ UNCHANGED ch
JSpec == JInit /\ [][JStep]_jvars
=============================================================================
