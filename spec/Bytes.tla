------------------------------- MODULE Bytes -------------------------------
(***************************************************************************)
(* Byte-sequence helpers shared by every module of the sml-rs spec.        *)
(* Operator module: declares no VARIABLES, so trace specs can EXTEND it.   *)
(***************************************************************************)
EXTENDS Naturals, Integers, Sequences, FiniteSets

Byte == 0..255

Rep(b, n) == [i \in 1..n |-> b]

IsPrefixOf(s, t) == Len(s) <= Len(t) /\ SubSeq(t, 1, Len(s)) = s
IsSuffixOf(s, t) == Len(s) <= Len(t) /\ SubSeq(t, Len(t) - Len(s) + 1, Len(t)) = s

Drop(s, n) == SubSeq(s, n + 1, Len(s))
Take(s, n) == SubSeq(s, 1, n)
Last(s) == s[Len(s)]

\* positions (0-based offsets) at which pat occurs in s
Occurrences(pat, s) ==
  { i \in 0..(Len(s) - Len(pat)) : SubSeq(s, i + 1, i + Len(pat)) = pat }

Min(a, b) == IF a <= b THEN a ELSE b
Max(a, b) == IF a >= b THEN a ELSE b

RECURSIVE SumSeq(_, _)
SumSeq(s, i) == IF i > Len(s) THEN 0 ELSE s[i] + SumSeq(s, i + 1)

\* number of trailing elements of s equal to b
RECURSIVE TrailingRun(_, _)
TrailingRun(s, b) ==
  IF s = <<>> \/ s[Len(s)] # b THEN 0 ELSE 1 + TrailingRun(SubSeq(s, 1, Len(s) - 1), b)

BoolToInt(x) == IF x THEN 1 ELSE 0
=============================================================================
