----------------------------- MODULE MC_Decoder -----------------------------
(***************************************************************************)
(* Bounded model-checking configurations over DecoderSM: token families    *)
(* ADV / INFRAME / HIST / NOISE / PAY of DESIGN.md section 4.              *)
(***************************************************************************)
EXTENDS DecoderSM

CONSTANTS PayLen      \* payload length bound of the PAY families

AdvBytes   == {27, 1, 26, 0, 2, 3, 85}
NoiseBytes == {27, 1, 85}
PayBytes   == {27, 0, 1, 26, 85}
Pads       == 0..4
Modes      == {"cur", "first", "bad"}

EndToks == { TokEnd(p, m) : p \in Pads, m \in Modes }

\* ADV: from just after START, bytes, START, half escape, END tokens
TokADV   == { TokByte(b) : b \in AdvBytes } \cup {TokStart, TokEsc4} \cup EndToks
FirstADV == {TokStart}

\* RAWCRC: from just after START: data bytes, end markers, zeros, half escapes and the bare checksum token - the
\* adversary completes *any* reading in which the decoder compares a checksum (C02 beyond well-formed end sequences)
TokRAWCRC   == { TokByte(b) : b \in {27, 26, 0, 85} } \cup {TokEsc4, TokCrc}
FirstRAWCRC == {TokStart}

RealignLoose == FALSE   \* overrides Decoder.RealignStrict in the negative control `neg_realign_loose`

\* HIST: ADV plus finalize / reset anywhere, from a new decoder
TokHIST   == TokADV \cup {TokFin, TokRst}
FirstHIST == TokHIST

\* NOISE: noise bytes and frames, from every idle history
SmallPayloads == {<<>>, <<27>>, <<0, 0>>}
TokNOISE   == { TokByte(b) : b \in NoiseBytes } \cup { TokFrame(p) : p \in SmallPayloads }
FirstNOISE == TokNOISE \cup {TokFin, TokRst,
                TokFrame(<<51>>),                       \* history "after ok" is just a frame
                <<"badframe">>, <<"badesc">>}           \* histories after invmsg / invesc

\* NOISEH: NOISE plus finalize / reset anywhere (reset while noise or a partial start sequence is pending)
TokNOISEH == TokNOISE \cup {TokFin, TokRst}

\* ZEROS: from just after START, zero / non-zero data bytes and end sequences with the checksum the decoder expects:
\* runs of five and more zeros (the fifth is stored directly), flushes, padding taken from the withheld zeros, with
\* small capacities so that every push site can run out of memory
TokZEROS   == {TokByte(0), TokByte(85)} \cup { TokEnd(p, "cur") : p \in 0..3 }
FirstZEROS == {TokStart}

\* PAY: all payloads over PayBytes up to PayLen as a first frame token
RECURSIVE SeqsUpTo(_, _)
SeqsUpTo(S, n) == IF n = 0 THEN {<<>>}
                  ELSE LET R == SeqsUpTo(S, n - 1)
                       IN R \cup { Append(s, b) : s \in {r \in R : Len(r) = n - 1}, b \in S }
Payloads == SeqsUpTo(PayBytes, PayLen)
FirstPAY == { TokFrame(p) : p \in Payloads } \cup { TokEncFrame(p, w) : p \in Payloads, w \in {"iter", "buf"} }
TokPAY   == {TokFin, TokFrame(<<>>)}

\* capacity family: payloads over {1b, 00, 55}
CapPayloads == SeqsUpTo({27, 0, 85}, PayLen)
FirstCAP == { TokFrame(p) : p \in CapPayloads \cup {<<85, 1, 27, 1>>} }   \* the extra payload has a CRC ending in 0x1b
TokCAP   == {TokFrame(<<>>)}
CapsQuick    == 0..7
CapsThorough == 0..9
CapsNeg      == 0..5
=============================================================================
