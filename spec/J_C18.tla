---- MODULE J_C18 ----
EXTENDS ArrayBuf, Json, IOUtils, TLC
(* C18: the observations of the real ArrayBuf<N> (n = -1: Vec through the same Buffer trait, unbounded) equal those
   of the ideal bounded vector for the recorded operation sequence; Debug and == depend on the visible contents only. *)
CapOf(n) == IF n < 0 THEN 1073741824 ELSE n
Mon(r) == /\ r.obs = IdealObs(<<>>, CapOf(r.n), r.ops, 1, <<>>)
          /\ r.dbg = 1
          \* eq = <<same contents / different stale bytes, last byte differs, b = strict prefix (b left), (b right),
          \*        b = extension of b (b left), (b right), same contents with the operands swapped>>
          /\ r.eq = <<1, 0, 0, 0, 0, 0, 1>>

\* ---- batch judge loop (generated boilerplate, see bin/vf) ---------------
Recs == ndJsonDeserialize(IOEnv.VF_TRACE)
NR == Len(Recs)
CH == 64
VARIABLES ch, i
jvars == <<ch, i>>
JInit == ch \in 1..CH /\ i = ch
JStep == /\ i <= NR
         /\ IF Mon(Recs[i]) THEN TRUE ELSE PrintT(<<"REJECT", i>>)
         /\ i' = i + CH /\ UNCHANGED ch
JSpec == JInit /\ [][JStep]_jvars
=============================================================================
