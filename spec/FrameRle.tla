------------------------------ MODULE FrameRle ------------------------------
(***************************************************************************)
(* The transport-v1 frame definition on run-length encoded byte strings    *)
(* <<<<byte, count>>, ...>> with maximal runs: lets TLC judge payloads of  *)
(* 2^13 .. 2^16+ bytes (C07) without quadratic sequence copying.           *)
(* A maximal run of n 0x1b bytes is transmitted as n + 4*(n \div 4) bytes. *)
(***************************************************************************)
EXTENDS Frame

\* CRC over n copies of b; folded in blocks of 256 so that the recursion depth stays small
\* (TLC does not optimise tail calls, and very deep Java stacks make every GC pause long)
RECURSIVE CrcRunSmall(_, _, _)
CrcRunSmall(c, b, n) == IF n = 0 THEN c ELSE CrcRunSmall(CrcStep(c, b), b, n - 1)
RECURSIVE CrcRun(_, _, _)
CrcRun(c, b, n) == IF n <= 256 THEN CrcRunSmall(c, b, n) ELSE CrcRun(CrcRunSmall(c, b, 256), b, n - 256)

RECURSIVE CrcRuns(_, _, _)
CrcRuns(c, runs, k) == IF k > Len(runs) THEN c ELSE CrcRuns(CrcRun(c, runs[k][1], runs[k][2]), runs, k + 1)

RECURSIVE LenRuns(_, _)
LenRuns(runs, k) == IF k > Len(runs) THEN 0 ELSE runs[k][2] + LenRuns(runs, k + 1)

\* merge adjacent runs of the same byte, drop empty runs
RECURSIVE Merge(_, _, _)
Merge(runs, k, acc) ==
  IF k > Len(runs) THEN acc
  ELSE IF runs[k][2] = 0 THEN Merge(runs, k + 1, acc)
  ELSE IF acc # <<>> /\ acc[Len(acc)][1] = runs[k][1]
       THEN Merge(runs, k + 1, [acc EXCEPT ![Len(acc)] = <<@[1], @[2] + runs[k][2]>>])
       ELSE Merge(runs, k + 1, Append(acc, runs[k]))

IsMaximalRle(runs) == \A k \in 1..Len(runs) : runs[k][2] > 0 /\ (k > 1 => runs[k][1] # runs[k - 1][1])

EscapeRle(runs) == [k \in 1..Len(runs) |->
                      IF runs[k][1] = 27 THEN <<27, runs[k][2] + 4 * (runs[k][2] \div 4)>> ELSE runs[k]]

CanonicalRle(runs) ==
  LET e    == EscapeRle(runs)
      pad  == PadCountOfLen(LenRuns(e, 1))
      body == <<<<27, 4>>, <<1, 4>>>> \o e \o <<<<0, pad>>, <<27, 4>>, <<26, 1>>, <<pad, 1>>>>
      c    == CrcFin(CrcRuns(CrcInit, body, 1))
  IN Merge(body \o <<<<c % 256, 1>>, <<c \div 256, 1>>>>, 1, <<>>)

RECURSIVE Expand(_, _)
Expand(runs, k) == IF k > Len(runs) THEN <<>> ELSE Rep(runs[k][1], runs[k][2]) \o Expand(runs, k + 1)

\* run-length encoding of a plain byte string (used to cross-check the two definitions)
RECURSIVE RleFrom(_, _, _)
RleFrom(p, i, acc) ==
  IF i > Len(p) THEN acc
  ELSE IF acc # <<>> /\ acc[Len(acc)][1] = p[i]
       THEN RleFrom(p, i + 1, [acc EXCEPT ![Len(acc)] = <<@[1], @[2] + 1>>])
       ELSE RleFrom(p, i + 1, Append(acc, <<p[i], 1>>))
RleOf(p) == RleFrom(p, 1, <<>>)
=============================================================================
