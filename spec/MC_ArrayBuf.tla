---------------------------- MODULE MC_ArrayBuf ----------------------------
(***************************************************************************)
(* Refinement of the ideal bounded vector by the array-with-stale-bytes    *)
(* representation, over all operation sequences up to MaxOps (C18).        *)
(* The history `ops` is kept so that every behaviour can be printed for    *)
(* replay against the real ArrayBuf<N> (binding B): vf prints one JSON     *)
(* line per maximal behaviour via the Emit "invariant".                    *)
(***************************************************************************)
EXTENDS ArrayBuf, TLC, Json

CONSTANTS Caps, ByteVals, MaxOps, MaxSlice, EmitJson

VARIABLES N, a, ideal, ops, lastOk
vars == <<N, a, ideal, ops, lastOk>>

RECURSIVE SeqsUpTo(_, _)
SeqsUpTo(S, n) == IF n = 0 THEN {<<>>}
                  ELSE LET R == SeqsUpTo(S, n - 1)
                       IN R \cup { Append(s, b) : s \in {r \in R : Len(r) = n - 1}, b \in S }
Slices == SeqsUpTo(ByteVals, MaxSlice)

OpSet == { <<1, b>> : b \in ByteVals } \cup { <<2>> \o s : s \in Slices } \cup { <<3, k>> : k \in 0..(MaxSlice + 1) }
         \cup {<<4>>} \cup { <<5>> \o s : s \in Slices }

Init == N \in Caps /\ a = AInit(N) /\ ideal = <<>> /\ ops = <<>> /\ lastOk = TRUE

Do(op) ==
  LET x == AApply(a, N, op) y == IApply(ideal, N, op) IN
  /\ a' = x.a /\ ideal' = y.v /\ ops' = Append(ops, op)
  /\ lastOk' = (x.r = y.r)
  /\ UNCHANGED N

Push     == \E op \in OpSet : op[1] = 1 /\ Do(op)
Extend   == \E op \in OpSet : op[1] = 2 /\ Do(op)
Truncate == \E op \in OpSet : op[1] = 3 /\ Do(op)
Clear    == \E op \in OpSet : op[1] = 4 /\ Do(op)
FromIter == \E op \in OpSet : op[1] = 5 /\ Do(op)
Next == Len(ops) < MaxOps /\ (Push \/ Extend \/ Truncate \/ Clear \/ FromIter)
Spec == Init /\ [][Next]_vars

\* ---- C18 -----------------------------------------------------------------
Refines == AView(a) = ideal /\ a.num = Len(ideal) /\ a.num <= N /\ Len(a.buf) = N
SameResult == lastOk
\* equality and Debug are functions of the view only: two states with the same view are equal whatever the stale cells
ViewOnly == \A b \in {AInit(N), a} : (AView(b) = AView(a)) = (AView(b) = ideal)

\* ---- emission of behaviours for replay (binding B) ---------------------------
Emit == (EmitJson /\ Len(ops) = MaxOps) => PrintT(<<"REPLAY", ToJson([n |-> N, ops |-> ops])>>)
=============================================================================
