------------------------------ MODULE Decoder ------------------------------
(***************************************************************************)
(* The push decoder of sml-rs (src/transport/decode.rs:143-450) as a pure  *)
(* transition function over an explicit state record, arm by arm.          *)
(*                                                                         *)
(* Operator module (no VARIABLES).  The state machine over it lives in     *)
(* DecoderSM; trace specs and monitors EXTEND this module directly.        *)
(*                                                                         *)
(* State record d:                                                         *)
(*   st    "look" | "normal" | "escchars" | "escpayload" | "done"          *)
(*   ninit matched bytes of the start sequence      (look)                 *)
(*   ndisc noise bytes seen since the last boundary (look)                 *)
(*   raw   raw_msg_len: bytes consumed since the last boundary             *)
(*   zc    zero_cache: withheld zero bytes, 0..4                           *)
(*   buf   output buffer contents, cap its capacity (CapInf = growable)    *)
(*   crc   running CRC register                                            *)
(*   n     number of 0x1b seen                      (escchars)             *)
(*   step, pl  index into / contents of the 4-byte escape payload          *)
(*                                                                         *)
(* MatcherFallback and DiscWidth select between the behaviour as found at  *)
(* the pinned commit ("drop", 16) and as repaired ("kmp", 0 = unbounded);  *)
(* see DESIGN.md section 6 (D1, D2).                                       *)
(***************************************************************************)
EXTENDS Frame

CONSTANTS MatcherFallback,   \* "drop" | "kmp"
          DiscWidth          \* 0 (unbounded) | 16

CapInf == 1073741824

CrcAfterStart == CrcFeed(CrcInit, StartSeq)
ZeroPl == <<0, 0, 0, 0>>

\* re-alignment test of decode.rs:343-360.  RealignStrict is a definition (not a CONSTANT) so that a model-checking config
\* can override it (`RealignStrict <- RealignLoose`): the loose variant - only the end marker at the aligned offset is
\* looked at, not the 1-3 bytes in front of it (seeded change S14-C02) - must violate Sound (negative control)
RealignStrict == TRUE
RealignOK(pl, bua) == bua > 0 /\ (RealignStrict => \A j \in 1..bua : pl[j] = 27) /\ pl[bua + 1] = 26

InitDec(cap) ==
  [st |-> "look", ninit |-> 0, ndisc |-> 0, raw |-> 0, zc |-> 0, buf |-> <<>>,
   crc |-> CrcInit, n |-> 0, step |-> 0, pl |-> ZeroPl, cap |-> cap]

None == [k |-> "none"]
OOM  == [k |-> "oom"]
Disc(n) == [k |-> "disc", n |-> n]

\* reset (decode.rs:394-407): everything but crc and cap
ResetD(d) ==
  [d EXCEPT !.st = "look", !.ninit = 0, !.ndisc = 0, !.buf = <<>>, !.raw = 0,
            !.zc = 0, !.n = 0, !.step = 0, !.pl = ZeroPl]

\* value returned by reset()
ResetCount(d) == IF d.st = "done" THEN 0 ELSE d.raw

\* finalize (decode.rs:379-391)
FinalizeOut(d) ==
  IF (d.st = "look" /\ d.ndisc = 0 /\ d.ninit = 0) \/ d.st = "done"
  THEN None ELSE Disc(d.raw)

\* push_inner (decode.rs:435-441): a full buffer resets the decoder
PushInner(d, b) ==
  IF Len(d.buf) >= d.cap THEN [d |-> ResetD(d), oom |-> TRUE]
  ELSE [d |-> [d EXCEPT !.buf = Append(@, b)], oom |-> FALSE]

\* flush (decode.rs:410-416)
RECURSIVE FlushN(_, _)
FlushN(d, k) ==
  IF k = 0 THEN [d |-> [d EXCEPT !.zc = 0], oom |-> FALSE]
  ELSE LET r == PushInner(d, 0) IN IF r.oom THEN r ELSE FlushN(r.d, k - 1)
Flush(d) == FlushN(d, d.zc)

\* push (decode.rs:418-433): zeros are withheld, at most 4 of them
Push1(d, b) ==
  IF b = 0
  THEN IF d.zc <= 3 THEN [d |-> [d EXCEPT !.zc = @ + 1], oom |-> FALSE]
       ELSE PushInner(d, 0)
  ELSE LET f == Flush(d) IN IF f.oom THEN f ELSE PushInner(f.d, b)

RECURSIVE PushMany(_, _, _)
PushMany(d, s, i) ==
  IF i > Len(s) THEN [d |-> d, oom |-> FALSE]
  ELSE LET r == Push1(d, s[i]) IN IF r.oom THEN r ELSE PushMany(r.d, s, i + 1)

AddDisc(nd, k) == IF DiscWidth = 0 THEN nd + k ELSE (nd + k) % 65536
DiscOverflows(nd, k) == DiscWidth # 0 /\ nd + k >= 65536

(***************************************************************************)
(* Arm classification: which arm of the `match` in push_byte handles byte  *)
(* b in state d (d.st # "done"; raw already incremented is irrelevant to   *)
(* the classification except for the escape-payload dispatch).             *)
(***************************************************************************)
Bua(raw) == (4 - (raw % 4)) % 4

Arm(d, b) ==
  CASE d.st = "look" ->
         IF (b = 27 /\ d.ninit < 4) \/ (b = 1 /\ d.ninit >= 4)
         THEN (IF d.ninit = 7 THEN "StartFound" ELSE "LookMatch")
         ELSE "LookMismatch"
    [] d.st = "normal" -> IF b = 27 THEN "NormalEsc" ELSE "NormalData"
    [] d.st = "escchars" ->
         IF b # 27 THEN "EscCharsBreak"
         ELSE IF d.n = 3 THEN "EscCharsFull" ELSE "EscCharsMore"
    [] d.st = "escpayload" ->
         IF d.step < 3 THEN "EscCollect"
         ELSE LET pl == [d.pl EXCEPT ![4] = b]
                  bua == Bua(d.raw + 1)
              IN IF pl = EscSeq THEN "EscLiteral"
                 ELSE IF pl = <<1, 1, 1, 1>> THEN "EscRestart"
                 ELSE IF pl[1] = 26 THEN "EscEnd"
                 ELSE IF RealignOK(pl, bua)
                      THEN "EscRealign" ELSE "EscInvalid"
    [] OTHER -> "Done"

\* ---- look (decode.rs:180-202) ------------------------------------------
LookStep(d, b) ==
  LET match == (b = 27 /\ d.ninit < 4) \/ (b = 1 /\ d.ninit >= 4)
      keep  == IF MatcherFallback = "kmp"
               THEN (IF b = 27 THEN (IF d.ninit = 4 THEN 4 ELSE 1) ELSE 0)
               ELSE 0
      d1 == IF match THEN [d EXCEPT !.ninit = @ + 1]
            ELSE [d EXCEPT !.ndisc = AddDisc(@, 1 + d.ninit - keep), !.ninit = keep]
  IN IF d1.ninit = 8
     THEN [d |-> [d1 EXCEPT !.st = "normal", !.raw = 8, !.crc = CrcAfterStart,
                            !.ninit = 0, !.ndisc = 0],
           out |-> IF d1.ndisc > 0 THEN Disc(d1.ndisc) ELSE None]
     ELSE [d |-> d1, out |-> None]

\* ---- normal (decode.rs:203-212) ----------------------------------------
NormalStep(d, b) ==
  LET dc == [d EXCEPT !.crc = CrcStep(@, b)] IN
  IF b = 27 THEN [d |-> [dc EXCEPT !.st = "escchars", !.n = 1], out |-> None]
  ELSE LET r == Push1(dc, b) IN [d |-> r.d, out |-> IF r.oom THEN OOM ELSE None]

\* ---- escchars (decode.rs:213-235) --------------------------------------
EscCharsStep(d, b) ==
  LET dc == [d EXCEPT !.crc = CrcStep(@, b)] IN
  IF b # 27
  THEN LET r == PushMany(dc, Rep(27, d.n) \o <<b>>, 1)
       IN IF r.oom THEN [d |-> r.d, out |-> OOM]
          ELSE [d |-> [r.d EXCEPT !.st = "normal", !.n = 0], out |-> None]
  ELSE IF d.n = 3
       THEN [d |-> [dc EXCEPT !.st = "escpayload", !.step = 0, !.pl = ZeroPl, !.n = 0],
             out |-> None]
       ELSE [d |-> [dc EXCEPT !.n = @ + 1], out |-> None]

\* ---- escpayload (decode.rs:236-368) ------------------------------------
EndSeqStep(d, pl) ==    \* pl[1] = 0x1a (decode.rs:270-321)
  LET pad   == pl[2]
      read  == pl[3] + 256 * pl[4]
      calc  == CrcFin(CrcFeed(d.crc, <<pl[1], pl[2]>>))
      mis   == d.raw % 4 # 0
      bad   == read # calc \/ mis \/ pad > 3 \/ d.raw < pad + 16 \/ pad > d.zc
      d0    == [d EXCEPT !.crc = CrcInit]     \* digest swapped out for a fresh one
  IN IF bad
     THEN [d |-> ResetD(d0),
           out |-> [k |-> "invmsg", mis |-> mis, pad |-> pad,
                    padbad |-> pad > d.zc, crcok |-> read = calc]]
     ELSE LET f == Flush([d0 EXCEPT !.zc = @ - pad])
          IN IF f.oom THEN [d |-> f.d, out |-> OOM]
             ELSE [d |-> [f.d EXCEPT !.st = "done", !.step = 0, !.pl = ZeroPl],
                   out |-> [k |-> "ok", m |-> f.d.buf]]

EscPayloadStep(d, b) ==
  LET pl == [d.pl EXCEPT ![d.step + 1] = b] IN
  IF d.step < 3 THEN [d |-> [d EXCEPT !.step = @ + 1, !.pl = pl], out |-> None]
  ELSE IF pl = EscSeq
  THEN \* literal escape in user data
       LET dc == [d EXCEPT !.crc = CrcFeed(@, pl)]
           r  == PushMany(dc, pl, 1)
       IN IF r.oom THEN [d |-> r.d, out |-> OOM]
          ELSE [d |-> [r.d EXCEPT !.st = "normal", !.step = 0, !.pl = ZeroPl], out |-> None]
  ELSE IF pl = <<1, 1, 1, 1>>
  THEN \* another start sequence: drop everything read before
       [d |-> [d EXCEPT !.raw = 8, !.zc = 0, !.buf = <<>>, !.crc = CrcAfterStart,
                        !.st = "normal", !.step = 0, !.pl = ZeroPl],
        out |-> Disc(d.raw - 8)]
  ELSE IF pl[1] = 26 THEN EndSeqStep(d, pl)
  ELSE LET bua == Bua(d.raw) IN
       IF RealignOK(pl, bua)
       THEN \* re-alignment: 1-3 trailing 0x1b of the payload were read as escape; the checksum runs over the bytes
            \* as received (= Rep(27, bua) under RealignStrict), 0x1b bytes are stored
            LET dc == [d EXCEPT !.crc = CrcFeed(@, SubSeq(pl, 1, bua))]
                r  == PushMany(dc, Rep(27, bua), 1)
            IN IF r.oom THEN [d |-> r.d, out |-> OOM]
               ELSE [d |-> [r.d EXCEPT !.step = 4 - bua,
                                       !.pl = [j \in 1..4 |-> IF j + bua <= 4 THEN pl[j + bua] ELSE pl[j]]],
                     out |-> None]
       ELSE [d |-> ResetD(d), out |-> [k |-> "invesc", pl |-> pl]]

\* push_byte for d.st # "done" (decode.rs:176-376); raw is bumped first
PushByte(d0, b) ==
  LET d == [d0 EXCEPT !.raw = @ + 1] IN
  CASE d.st = "look"       -> LookStep(d, b)
    [] d.st = "normal"     -> NormalStep(d, b)
    [] d.st = "escchars"   -> EscCharsStep(d, b)
    [] d.st = "escpayload" -> EscPayloadStep(d, b)

\* Done: reset, then handle the byte like a fresh decoder (decode.rs:369-373)
Step(d, b) == IF d.st = "done" THEN PushByte(ResetD(d), b) ELSE PushByte(d, b)

\* finalize() / reset() as API calls
FinalizeCall(d) == [d |-> ResetD(d), out |-> FinalizeOut(d)]
ResetCall(d)    == [d |-> ResetD(d), n |-> ResetCount(d)]

(***************************************************************************)
(* Run a whole byte string from state d; result [d, evs] where evs is the  *)
(* sequence of <<position, out>> of all non-"none" outputs, positions are  *)
(* 1-based indices into s offset by `base`.                                *)
(***************************************************************************)
RECURSIVE RunFrom(_, _, _, _, _)
RunFrom(d, s, i, base, acc) ==
  IF i > Len(s) THEN [d |-> d, evs |-> acc]
  ELSE LET r == Step(d, s[i])
       IN RunFrom(r.d, s, i + 1, base,
                  IF r.out.k = "none" THEN acc ELSE Append(acc, <<base + i, r.out>>))
Run(d, s) == RunFrom(d, s, 1, 0, <<>>)

(***************************************************************************)
(* Typing and width invariants of the decoder state (C05).                 *)
(***************************************************************************)
DecTypeOK(d) ==
  /\ d.st \in {"look", "normal", "escchars", "escpayload", "done"}
  /\ d.ninit \in 0..7 /\ d.ndisc \in Nat /\ d.raw \in Nat
  /\ d.zc \in 0..4 /\ d.n \in 0..3 /\ d.step \in 0..3
  /\ Len(d.buf) <= d.cap
  /\ (d.st # "look" => d.ninit = 0 /\ d.ndisc = 0)
  /\ (d.st # "escchars" => d.n = 0)
  /\ (d.st = "escchars" => d.n \in 1..3)
  /\ (d.st # "escpayload" => d.step = 0 /\ d.pl = ZeroPl)
  /\ (d.st = "look" => d.zc = 0 /\ d.buf = <<>> /\ d.raw = d.ndisc + d.ninit)
  /\ (d.st \in {"normal", "escchars", "escpayload"} => d.raw >= 8)

\* "idle": the decoder is between transmissions, i.e. observably fresh
Proj(d) == [d EXCEPT !.crc = 0]
IsIdle(d) == d.st = "done" \/ Proj(d) = Proj(InitDec(d.cap))
=============================================================================
