---- MODULE J_Conf ----
EXTENDS Reader, Json, IOUtils, TLC
(***************************************************************************)
(* Trace validation of the real push decoder against the Decoder spec,     *)
(* step by step and with every error field: each recorded trace            *)
(* {cap, ops, e} (ops: bytes, 256 finalize, 257 reset; e: the events the   *)
(* real Decoder<B> returned) must be exactly the behaviour of the spec's   *)
(* Step / FinalizeCall / ResetCall from InitDec(cap), and the spec state   *)
(* must stay well typed (DecTypeOK) along the way.                         *)
(* This is *stronger* than any listed property (it pins, e.g., the fields  *)
(* of InvalidMessage), so a rejection is reported as conformance drift,    *)
(* not as a violation (DESIGN.md 3.2).                                     *)
(***************************************************************************)
RECURSIVE Conf(_, _, _, _, _, _)
Conf(d, ops, k, pos, e, j) ==
  IF k > Len(ops) THEN j = Len(e) + 1
  ELSE LET op == ops[k] IN
    IF op = 256 THEN
      LET f == FinalizeOut(d)
          ev == <<pos, 6, IF f.k = "disc" THEN f.n ELSE 0, IF f.k = "disc" THEN 1 ELSE 0>>
      IN j <= Len(e) /\ e[j] = ev /\ Conf(ResetD(d), ops, k + 1, pos, e, j + 1)
    ELSE IF op = 257 THEN
      j <= Len(e) /\ e[j] = <<pos, 7, ResetCount(d)>> /\ Conf(ResetD(d), ops, k + 1, pos, e, j + 1)
    ELSE
      LET s == Step(d, op) IN
      /\ DecTypeOK(s.d)
      /\ IF s.out.k = "none" THEN (j > Len(e) \/ e[j][1] # pos + 1 \/ e[j][2] \in {6, 7}) /\ Conf(s.d, ops, k + 1, pos + 1, e, j)
         ELSE j <= Len(e) /\ e[j] = EvOfOut(pos + 1, s.out) /\ Conf(s.d, ops, k + 1, pos + 1, e, j + 1)

\* (traces longer than 600 operations are left to the monitors: TLC's recursion depth makes them disproportionately slow)
Mon(r) == IF r.cap < -1 \/ Len(r.ops) > 600 THEN TRUE
          ELSE Conf(InitDec(IF r.cap = -1 THEN CapInf ELSE r.cap), r.ops, 1, 0, r.e, 1)

\* ---- batch judge loop (generated boilerplate, see bin/vf) ---------------
Recs == ndJsonDeserialize(IOEnv.VF_TRACE)
NR == Len(Recs)
CH == 64
VARIABLES ch, i
jvars == <<ch, i>>
JInit == ch \in 1..CH /\ i = ch
JStep == /\ i <= NR
         /\ IF Mon(Recs[i]) THEN TRUE ELSE PrintT(<<"REJECT", i>>)
         /\ i' = i + CH /\ UNCHANGED ch
JSpec == JInit /\ [][JStep]_jvars
=============================================================================
