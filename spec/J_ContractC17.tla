---- MODULE J_ContractC17 ----
EXTENDS ContractWalk, Json, IOUtils, TLC
(* C17 as a whole-behaviour contract: the reports of a push / finalize / reset trace tile the stream (ranges, counts, the
   start sequence that triggered each count) AND there is no gap: after an idle boundary the noise before the first start
   sequence is reported when that start sequence completes (Contract mode "c17"). *)
Mon(r) == Applies(r) => (WellFormed(r.e) /\ Walk(r.ops, 1, <<>>, r.e, 1, CInit0, "c17", CapOf(r)))

\* ---- batch judge loop (generated boilerplate, see bin/vf) ---------------
Recs == ndJsonDeserialize(IOEnv.VF_TRACE)
NR == Len(Recs)
CH == 64
VARIABLES ch, i
jvars == <<ch, i>>
JInit == ch \in 1..CH /\ i = ch
JStep == /\ i <= NR
         /\ IF Mon(Recs[i]) THEN TRUE ELSE PrintT(<<"REJECT", i>>)
         /\ i' = i + CH /\ UNCHANGED ch
JSpec == JInit /\ [][JStep]_jvars
=============================================================================
