---- MODULE J_C06 ----
EXTENDS Bytes, Json, IOUtils, TLC
(* C06: both parsers return a value or an error (1 / 0; 8 panic, 9 abort, 12 runaway, 13 hang are violations); the
   allocating parser's requests are bounded by K*|x| + K0 (largest single request and total), the streaming parser
   allocates nothing. *)
K == 256
K0 == 4096
Mon(r) == /\ r.co \in {0, 1} /\ r.so \in {0, 1}
          /\ r.a[2] <= K * r.n + K0
          /\ r.a[3] <= 4 * (K * r.n + K0)
          /\ r.sa = 0
          /\ r.ca <= K * r.n + K0      \* collect() of the event iterator (one bool per event) is steered by its size_hint

\* ---- batch judge loop (generated boilerplate, see bin/vf) ---------------
Recs == ndJsonDeserialize(IOEnv.VF_TRACE)
NR == Len(Recs)
CH == 64
VARIABLES ch, i
jvars == <<ch, i>>
JInit == ch \in 1..CH /\ i = ch
JStep == /\ i <= NR
         /\ IF Mon(Recs[i]) THEN TRUE ELSE PrintT(<<"REJECT", i>>)
         /\ i' = i + CH /\ UNCHANGED ch
JSpec == JInit /\ [][JStep]_jvars
=============================================================================
