SPECIFICATION JSpec
CHECK_DEADLOCK FALSE
CONSTANTS
  MatcherFallback = "kmp"
  DiscWidth = 0
