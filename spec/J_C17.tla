---- MODULE J_C17 ----
EXTENDS Frame, Events, Json, IOUtils, TLC
(* C17: delivered frames, discarded-bytes reports and rejected frames tile the input. *)
RECURSIVE Tile(_, _, _, _)
Tile(evs, k, bnd, T) ==
  IF k > Len(evs) THEN bnd = T
  ELSE LET e == evs[k] pos == e[1] kind == e[2] IN
    CASE kind = 1 -> pos - FrameLen(EvArgs(e)) = bnd /\ Tile(evs, k + 1, pos, T)
      [] kind = 2 -> Len(e) = 3 /\ pos = bnd + e[3] + 8 /\ Tile(evs, k + 1, bnd + e[3], T)
      [] kind \in {3, 4, 5} -> pos > bnd /\ Tile(evs, k + 1, pos, T)
      [] kind = 6 -> Len(e) = 4 /\ e[3] = pos - bnd /\ (e[4] = 0 => e[3] = 0) /\ Tile(evs, k + 1, pos, T)
      [] kind = 7 -> Len(e) = 3 /\ e[3] = pos - bnd /\ Tile(evs, k + 1, pos, T)
      [] kind = 9 -> Len(e) = 4 /\ (IF e[3] = 1 THEN e[4] = 0 /\ Tile(evs, k + 1, bnd, T)
                                   ELSE e[4] = pos - bnd /\ Tile(evs, k + 1, pos, T))
      [] kind = 10 -> pos = bnd /\ pos = T /\ Tile(evs, k + 1, bnd, T)
      [] OTHER -> FALSE
Mon(r) == Tile(r.e, 1, 0, r.T)

\* ---- batch judge loop (generated boilerplate, see bin/vf) ---------------
Recs == ndJsonDeserialize(IOEnv.VF_TRACE)
NR == Len(Recs)
CH == 64
VARIABLES ch, i
jvars == <<ch, i>>
JInit == ch \in 1..CH /\ i = ch
JStep == /\ i <= NR
         /\ IF Mon(Recs[i]) THEN TRUE ELSE PrintT(<<"REJECT", i>>)
         /\ i' = i + CH /\ UNCHANGED ch
JSpec == JInit /\ [][JStep]_jvars
=============================================================================
