------------------------------- MODULE Events -------------------------------
(***************************************************************************)
(* Observation records written by the Rust harness (harness/src/fe.rs):    *)
(* an event is an int tuple <<pos, kind, ...>>                             *)
(*   1 ok payload...   2 disc n   3 oom   4 invmsg mis pad padbad crcok    *)
(*   5 invesc p1..p4   6 fin n some   7 rst n   8 panic                    *)
(*   9 ioerr class n (0 eof, 1 would-block, 2 other)   10 none             *)
(*  11 finalize returned a non-DiscardedBytes error   12 runaway loop      *)
(* pos = bytes consumed when the result was reported, -1 if not exposed.   *)
(* Front-end classes: 1 push (+finalize), 2 whole (decode()), 3 pull       *)
(* (decode_streaming), 4 reader (DecoderReader / SmlReader).               *)
(* Norm implements the normalisation C15 allows: the leftover bytes at     *)
(* end of input may be reported as a trailing discarded-bytes error, as an *)
(* end-of-file error carrying the count, or (count 0) not at all.          *)
(***************************************************************************)
EXTENDS Bytes

EvPos(e)  == e[1]
EvKind(e) == e[2]
EvArgs(e) == SubSeq(e, 3, Len(e))
NoPos(e)  == SubSeq(e, 2, Len(e))

IsEv(e) == Len(e) >= 2
Abnormal(e) == EvKind(e) \in {8, 11, 12, 15}   \* panic, wrong finalize error, runaway loop, hang (watchdog)
AnyAbnormal(evs) == \E i \in 1..Len(evs) : ~IsEv(evs[i]) \/ Abnormal(evs[i])

\* strip trailing "none" (kind 10) entries; n = how many were stripped
RECURSIVE StripNones(_)
StripNones(evs) ==
  IF evs # <<>> /\ EvKind(Last(evs)) = 10 THEN StripNones(Take(evs, Len(evs) - 1)) ELSE evs

NormWhole(evs) ==
  IF evs # <<>> /\ EvKind(Last(evs)) = 2 /\ Len(Last(evs)) = 3
  THEN [res |-> Take(evs, Len(evs) - 1), left |-> Last(evs)[3], wf |-> TRUE]
  ELSE [res |-> evs, left |-> 0, wf |-> TRUE]

Norm(class, evs) ==
  IF AnyAbnormal(evs) THEN [res |-> evs, left |-> -1, wf |-> FALSE]
  ELSE CASE class = 1 ->
         IF evs # <<>> /\ EvKind(Last(evs)) = 6 /\ Len(Last(evs)) = 4
         THEN [res |-> Take(evs, Len(evs) - 1), left |-> Last(evs)[3],
               wf |-> (Last(evs)[4] = 1) = (Last(evs)[3] > 0)]
         ELSE [res |-> evs, left |-> -1, wf |-> FALSE]
    [] class = 2 -> NormWhole(evs)
    [] class = 3 ->
         LET s == StripNones(evs) IN
         IF Len(s) = Len(evs) THEN [res |-> evs, left |-> -1, wf |-> FALSE]   \* never returned None
         ELSE NormWhole(s)
    [] class = 4 ->
         LET s == StripNones(evs) IN
         IF Len(s) = Len(evs) THEN [res |-> evs, left |-> -1, wf |-> FALSE]
         ELSE IF s # <<>> /\ EvKind(Last(s)) = 9 /\ Len(Last(s)) = 4 /\ Last(s)[3] = 0
              THEN [res |-> Take(s, Len(s) - 1), left |-> Last(s)[4], wf |-> TRUE]
              ELSE [res |-> s, left |-> 0, wf |-> TRUE]
    [] OTHER -> [res |-> evs, left |-> -1, wf |-> FALSE]

ResNoPos(n) == [i \in 1..Len(n.res) |-> NoPos(n.res[i])]
ResPos(n)   == [i \in 1..Len(n.res) |-> EvPos(n.res[i])]

EvOk(pos, m)  == <<pos, 1>> \o m
EvDisc(pos, n) == <<pos, 2, n>>
=============================================================================
