----------------------------- MODULE SmlGrammar -----------------------------
(***************************************************************************)
(* An independent reading of the SML 1.04 message grammar, restricted to   *)
(* the subset sml-rs supports (open / close / get-list responses), plus    *)
(* the documented vendor workaround for the time type.  Decode direction:  *)
(* parsers over (x, i), i = 1-based index of the next byte.                *)
(*                                                                         *)
(*   Octet    tlf octet, L bytes             Bool   tlf (bool,1), byte # 0 *)
(*   Uint(w)/Int(w)  tlf uint/int, 1 <= L <= w, L bytes                    *)
(*   Opt(X)   0x01 -> absent, else X                                       *)
(*   Time     tlf (uint,4): 4 bytes [workaround] | tlf (list,2): Uint(1)=1,*)
(*            Uint(4)                                                      *)
(*   Status   tlf uint, 1 <= L <= 8; class 8/16/32/64 for L = 1/2/3-4/5-8  *)
(*   Value    bool | octet | int | uint (class as Status) | (list,2):      *)
(*            Uint(1) = 1, Time                                            *)
(*   Entry    (list,7): Octet Opt(Status) Opt(Time) Opt(Uint(1))           *)
(*            Opt(Int(1)) Value Opt(Octet)                                 *)
(*   Open     (list,6): Opt(Octet) Opt(Octet) Octet Octet Opt(Time)        *)
(*            Opt(Uint(1))                                                 *)
(*   Close    (list,1): Opt(Octet)                                         *)
(*   GetList  (list,7): Opt(Octet) Octet Opt(Octet) Opt(Time)              *)
(*            (list,n): Entry^n  Opt(Octet) Opt(Time)                      *)
(*   Message  (list,6): Octet Uint(1) Uint(1) (list,2): Uint(4) tag, body  *)
(*            Uint(2) = CRC-16/X.25 (little-endian on the wire) of all     *)
(*            message bytes before this field, then 0x00                   *)
(*   File     Message* until the input is exhausted                       *)
(*                                                                         *)
(* Values are nested tuples of small integers, exactly the JSON the        *)
(* harness prints (harness/src/ps.rs):                                     *)
(*   bytes <<b..>>;  opt <<>> | <<v>>;  time <<b1,b2,b3,b4>> (big-endian)  *)
(*   status <<class, be-bytes>>;  value <<0,b>> bool | <<1,bytes>> |       *)
(*   <<2,class,be>> int | <<3,class,be>> uint | <<4,time>>                 *)
(*   entry <<name, status?, time?, unit?, scaler?, value, signature?>>     *)
(*   body <<1, cp?, client?, reqfile, server, time?, ver?>> | <<2, sig?>>  *)
(*        | <<7, client?, server, name?, time?, <<entry..>>, sig?, time?>>  *)
(*   message <<tid, group, abort, body>>;  file <<message..>>              *)
(* Integers wider than 31 bits never become TLC integers: they stay        *)
(* big-endian byte strings extended to their width class (that *is* the    *)
(* statement of C12).                                                      *)
(***************************************************************************)
EXTENDS Tlf, Crc16

Ok(i, v)    == [ok |-> TRUE, i |-> i, v |-> v]
Err(k, sub) == [ok |-> FALSE, err |-> k, sub |-> sub]
OfTlfErr(t) == Err(t.err, t.sub)

TakeN(x, i, n) ==      \* n: U32 pair; lengths of 2^30 and more exceed every input TLC can hold (and its 32-bit integers)
  IF n.hi >= 16384 THEN Err(EEof, 0)
  ELSE LET L == n.hi * 65536 + n.lo IN
       IF i + L - 1 > Len(x) THEN Err(EEof, 0) ELSE Ok(i + L, SubSeq(x, i, i + L - 1))

ClassOf(L) == IF L = 1 THEN 8 ELSE IF L = 2 THEN 16 ELSE IF L <= 4 THEN 32 ELSE 64
Extend(b, w, fill) == Rep(fill, w - Len(b)) \o b
SignFill(b) == IF b[1] > 127 THEN 255 ELSE 0

POctetT(x, t) == IF t.ty # TyOctet THEN Err(EMismatch, 0) ELSE TakeN(x, t.i, t.len)
POctet(x, i) == LET t == TlfParse(x, i) IN IF ~t.ok THEN OfTlfErr(t) ELSE POctetT(x, t)

\* raw bytes of an unsigned / signed number of at most w bytes
PNumT(x, t, ty, w) ==
  IF t.ty # ty \/ t.len.hi > 0 \/ t.len.lo = 0 \/ t.len.lo > w THEN Err(EMismatch, 0) ELSE TakeN(x, t.i, t.len)
PNum(x, i, ty, w) == LET t == TlfParse(x, i) IN IF ~t.ok THEN OfTlfErr(t) ELSE PNumT(x, t, ty, w)

PU8(x, i) == LET r == PNum(x, i, TyUint, 1) IN IF ~r.ok THEN r ELSE Ok(r.i, r.v[1])
PI8(x, i) == LET r == PNum(x, i, TyInt, 1) IN IF ~r.ok THEN r ELSE Ok(r.i, IF r.v[1] > 127 THEN r.v[1] - 256 ELSE r.v[1])
PU16(x, i) == LET r == PNum(x, i, TyUint, 2) IN IF ~r.ok THEN r ELSE Ok(r.i, Extend(r.v, 2, 0))
PU32(x, i) == LET r == PNum(x, i, TyUint, 4) IN IF ~r.ok THEN r ELSE Ok(r.i, Extend(r.v, 4, 0))

PTimeT(x, t) ==
  IF t.ty = TyUint /\ t.len = U32(0, 4) THEN TakeN(x, t.i, U32(0, 4))          \* vendor workaround (Holley DTZ541)
  ELSE IF ~(t.ty = TyList /\ t.len = U32(0, 2)) THEN Err(EMismatch, 0)
  ELSE LET tag == PU8(x, t.i) IN
       IF ~tag.ok THEN tag
       ELSE IF tag.v # 1 THEN Err(EVariant, 0)
       ELSE PU32(x, tag.i)
PTime(x, i) == LET t == TlfParse(x, i) IN IF ~t.ok THEN OfTlfErr(t) ELSE PTimeT(x, t)

PStatus(x, i) ==
  LET t == TlfParse(x, i) IN
  IF ~t.ok THEN OfTlfErr(t)
  ELSE IF t.ty # TyUint \/ t.len.hi > 0 \/ t.len.lo = 0 \/ t.len.lo > 8 THEN Err(EMismatch, 0)
  ELSE LET r == TakeN(x, t.i, t.len) IN
       IF ~r.ok THEN r ELSE Ok(r.i, <<ClassOf(t.len.lo), Extend(r.v, ClassOf(t.len.lo) \div 8, 0)>>)

PValue(x, i) ==
  LET t == TlfParse(x, i) IN
  IF ~t.ok THEN OfTlfErr(t)
  ELSE CASE t.ty = TyBool ->
              IF t.len # U32(0, 1) THEN Err(EMismatch, 0)
              ELSE IF t.i > Len(x) THEN Err(EEof, 0) ELSE Ok(t.i + 1, <<0, BoolToInt(x[t.i] # 0)>>)
         [] t.ty = TyOctet ->
              LET r == TakeN(x, t.i, t.len) IN IF ~r.ok THEN r ELSE Ok(r.i, <<1, r.v>>)
         [] t.ty \in {TyInt, TyUint} ->
              IF t.len.hi > 0 \/ t.len.lo = 0 \/ t.len.lo > 8 THEN Err(EMismatch, 0)
              ELSE LET r == TakeN(x, t.i, t.len) c == ClassOf(t.len.lo) IN
                   IF ~r.ok THEN r
                   ELSE Ok(r.i, <<IF t.ty = TyInt THEN 2 ELSE 3, c,
                                  Extend(r.v, c \div 8, IF t.ty = TyInt THEN SignFill(r.v) ELSE 0)>>)
         [] OTHER ->   \* list: only the list type "time" (tag 1) is supported
              IF t.len # U32(0, 2) THEN Err(EMismatch, 0)
              ELSE LET tag == PU8(x, t.i) IN
                   IF ~tag.ok THEN tag
                   ELSE IF tag.v # 1 THEN Err(EVariant, 0)
                   ELSE LET r == PTime(x, tag.i) IN IF ~r.ok THEN r ELSE Ok(r.i, <<4, r.v>>)

IsAbsent(x, i) == i <= Len(x) /\ x[i] = 1
Some(r) == IF ~r.ok THEN r ELSE Ok(r.i, <<r.v>>)

\* one field of a fixed-arity structure, selected by name
PField(f, x, i) ==
  CASE f = "octet"     -> POctet(x, i)
    [] f = "u8"        -> PU8(x, i)
    [] f = "value"     -> PValue(x, i)
    [] f = "optoctet"  -> IF IsAbsent(x, i) THEN Ok(i + 1, <<>>) ELSE Some(POctet(x, i))
    [] f = "opttime"   -> IF IsAbsent(x, i) THEN Ok(i + 1, <<>>) ELSE Some(PTime(x, i))
    [] f = "optu8"     -> IF IsAbsent(x, i) THEN Ok(i + 1, <<>>) ELSE Some(PU8(x, i))
    [] f = "opti8"     -> IF IsAbsent(x, i) THEN Ok(i + 1, <<>>) ELSE Some(PI8(x, i))
    [] f = "optstatus" -> IF IsAbsent(x, i) THEN Ok(i + 1, <<>>) ELSE Some(PStatus(x, i))

RECURSIVE PFields(_, _, _, _, _)
PFields(x, i, sch, k, acc) ==
  IF k > Len(sch) THEN Ok(i, acc)
  ELSE LET r == PField(sch[k], x, i) IN
       IF ~r.ok THEN r ELSE PFields(x, r.i, sch, k + 1, Append(acc, r.v))

\* a structure: TLF must be (list, arity), then the fields
PStruct(x, i, arity, sch) ==
  LET t == TlfParse(x, i) IN
  IF ~t.ok THEN OfTlfErr(t)
  ELSE IF ~(t.ty = TyList /\ t.len = U32(0, arity)) THEN Err(EMismatch, 0)
  ELSE PFields(x, t.i, sch, 1, <<>>)

EntrySchema == <<"octet", "optstatus", "opttime", "optu8", "opti8", "value", "optoctet">>
OpenSchema  == <<"optoctet", "optoctet", "octet", "octet", "opttime", "optu8">>
CloseSchema == <<"optoctet">>
ListHeadSchema == <<"optoctet", "octet", "optoctet", "opttime">>
ListTailSchema == <<"optoctet", "opttime">>

PEntry(x, i) == PStruct(x, i, 7, EntrySchema)

RECURSIVE PEntries(_, _, _, _)
PEntries(x, i, n, acc) ==
  IF n = 0 THEN Ok(i, acc)
  ELSE LET r == PEntry(x, i) IN IF ~r.ok THEN r ELSE PEntries(x, r.i, n - 1, Append(acc, r.v))

\* head of a get-list response up to and including the list TLF: value <<head fields.., count>>
PListHead(x, i) ==
  LET t == TlfParse(x, i) IN
  IF ~t.ok THEN OfTlfErr(t)
  ELSE IF ~(t.ty = TyList /\ t.len = U32(0, 7)) THEN Err(EMismatch, 0)
  ELSE LET h == PFields(x, t.i, ListHeadSchema, 1, <<>>) IN
       IF ~h.ok THEN h
       ELSE LET lt == TlfParse(x, h.i) IN
            IF ~lt.ok THEN OfTlfErr(lt)
            ELSE IF lt.ty # TyList THEN Err(EMismatch, 0)
            ELSE Ok(lt.i, [head |-> h.v, count |-> lt.len])

PGetList(x, i) ==
  LET h == PListHead(x, i) IN
  IF ~h.ok THEN h
  ELSE LET es == PEntries(x, h.i, U32Clamp(h.v.count, Len(x) + 1), <<>>) IN
       IF ~es.ok THEN es
       ELSE LET tl == PFields(x, es.i, ListTailSchema, 1, <<>>) IN
            IF ~tl.ok THEN tl
            ELSE Ok(tl.i, <<7>> \o h.v.head \o <<es.v>> \o tl.v)

TagOpen  == <<0, 0, 1, 1>>
TagClose == <<0, 0, 2, 1>>
TagList  == <<0, 0, 7, 1>>

\* envelope up to the body tag: value [tid, group, abort, tag], i = start of the body structure
PEnvelope(x, i) ==
  LET t == TlfParse(x, i) IN
  IF ~t.ok THEN OfTlfErr(t)
  ELSE IF ~(t.ty = TyList /\ t.len = U32(0, 6)) THEN Err(EMismatch, 0)
  ELSE LET h == PFields(x, t.i, <<"octet", "u8", "u8">>, 1, <<>>) IN
       IF ~h.ok THEN h
       ELSE LET bt == TlfParse(x, h.i) IN
            IF ~bt.ok THEN OfTlfErr(bt)
            ELSE IF ~(bt.ty = TyList /\ bt.len = U32(0, 2)) THEN Err(EMismatch, 0)
            ELSE LET tag == PU32(x, bt.i) IN
                 IF ~tag.ok THEN tag
                 ELSE IF tag.v \notin {TagOpen, TagClose, TagList} THEN Err(EVariant, 0)
                 ELSE Ok(tag.i, [tid |-> h.v[1], group |-> h.v[2], abort |-> h.v[3], tag |-> tag.v])

\* checksum field and end-of-message marker; i0 = first byte of the message, i = first byte of the crc field
PTrailer(x, i0, i) ==
  LET c == PU16(x, i) IN
  IF ~c.ok THEN c
  ELSE IF c.i > Len(x) THEN Err(EEof, 0)
  ELSE IF x[c.i] # 0 THEN Err(EMsgEnd, 0)
  ELSE LET d == Crc16(SubSeq(x, i0, i - 1)) IN
       IF c.v # <<d % 256, d \div 256>> THEN Err(ECrc, 0) ELSE Ok(c.i + 1, <<>>)

PMessage(x, i) ==
  LET e == PEnvelope(x, i) IN
  IF ~e.ok THEN e
  ELSE LET b == IF e.v.tag = TagOpen THEN LET r == PStruct(x, e.i, 6, OpenSchema) IN IF ~r.ok THEN r ELSE Ok(r.i, <<1>> \o r.v)
                ELSE IF e.v.tag = TagClose THEN LET r == PStruct(x, e.i, 1, CloseSchema) IN IF ~r.ok THEN r ELSE Ok(r.i, <<2>> \o r.v)
                ELSE PGetList(x, e.i)
       IN IF ~b.ok THEN b
          ELSE LET t == PTrailer(x, i, b.i) IN
               IF ~t.ok THEN t ELSE Ok(t.i, <<e.v.tid, e.v.group, e.v.abort, b.v>>)

RECURSIVE PMessages(_, _, _)
PMessages(x, i, acc) ==
  IF i > Len(x) THEN Ok(i, acc)
  ELSE LET m == PMessage(x, i) IN IF ~m.ok THEN m ELSE PMessages(x, m.i, Append(acc, m.v))

ParseFile(x) == PMessages(x, 1, <<>>)

\* result in the harness' JSON shape: <<1, file>> | <<0, kind, sub>>
ResultOf(r) == IF r.ok THEN <<1, r.v>> ELSE <<0, r.err, r.sub>>
FileResult(x) == ResultOf(ParseFile(x))
=============================================================================
