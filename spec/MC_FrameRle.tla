---------------------------- MODULE MC_FrameRle ----------------------------
(* Cross-checks FrameRle.CanonicalRle against Frame.Canonical on every payload over PayBytes up to PayLen. *)
EXTENDS FrameRle
CONSTANTS PayBytes, PayLen
VARIABLE p
Init == p = <<>>
Next == Len(p) < PayLen /\ \E b \in PayBytes : p' = Append(p, b)
Agree == /\ Expand(CanonicalRle(RleOf(p)), 1) = Canonical(p)
         /\ IsMaximalRle(RleOf(p)) /\ IsMaximalRle(CanonicalRle(RleOf(p)))
         /\ LenRuns(CanonicalRle(RleOf(p)), 1) = FrameLen(p)
=============================================================================
