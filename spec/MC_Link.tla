------------------------------ MODULE MC_Link ------------------------------
(***************************************************************************)
(* End to end at the level of the specification (C10, with C01 / C08):     *)
(* a meter sends abstract SML files; each is serialised (SmlEncode, with   *)
(* encoding choices), framed by either transport encoder (Encoder.tla) and *)
(* preceded by inter-frame noise; the reader side pulls the wire bytes     *)
(* through DecoderReader::next (Reader.tla) and parses every payload with  *)
(* both parsers (SmlGrammar.ParseFile, StreamParser.StreamItems).          *)
(* LinkOK: the reader yields exactly the discarded-byte counts of the      *)
(* noise and the sent files, in order, then the leftover count and end of  *)
(* input - and the parsed values are the abstract files that were sent.    *)
(***************************************************************************)
EXTENDS StreamParser, SmlEncode, SmlFiles, TLC

CONSTANTS MaxFiles,          \* number of files per behaviour (1: wide file / choice sets, 2: narrower ones)
          LinkMatcher        \* "kmp" (as repaired) | "drop" (as found, D2: negative control)

R == INSTANCE Reader WITH MatcherFallback <- LinkMatcher, DiscWidth <- 0
Enc == INSTANCE Encoder

VARIABLES sent,    \* <<file index, choice, encoder>> of every file sent so far
          gaps,    \* the noise string sent before each file
          wire,    \* all bytes on the wire
          tail,    \* noise after the last file
          phase    \* "send" | "done"
vars == <<sent, gaps, wire, tail, phase>>

\* noise without a start sequence, also ending in 0x1b runs / a partial start sequence / an end-sequence look-alike
Noises == {<<>>, <<85>>, <<27, 27>>, <<27, 27, 27, 27, 1, 1>>, <<0, 26, 27>>, <<1, 1, 1, 1, 27, 27, 27, 27, 26, 0>>}
LinkFiles == IF MaxFiles = 1 THEN {2, 3, 4, 5, 10} ELSE {2, 4, 10}
LinkChoices == {DefaultChoice, [extra |-> 1, intfull |-> TRUE, timebare |-> TRUE, where |-> "all"]}
                 \cup (IF MaxFiles = 1 THEN {[extra |-> 2, intfull |-> FALSE, timebare |-> FALSE, where |-> "list"]} ELSE {})

Framed(w, p) == IF w = "iter" THEN Enc!IterEncode(p).bytes ELSE Enc!BufEncode(p, R!CapInf).bytes

Init == sent = <<>> /\ gaps = <<>> /\ wire = <<>> /\ tail = <<>> /\ phase = "send"
Send == /\ phase = "send" /\ Len(sent) < MaxFiles
        /\ \E fi \in LinkFiles, ch \in LinkChoices, w \in {"iter", "buf"}, g \in Noises :
             /\ sent' = Append(sent, <<fi, ch, w>>) /\ gaps' = Append(gaps, g)
             /\ wire' = wire \o g \o Framed(w, Encode(Files[fi], ch))
        /\ UNCHANGED <<tail, phase>>
Finish == /\ phase = "send" /\ \E g \in Noises : tail' = g /\ wire' = wire \o g
          /\ phase' = "done" /\ UNCHANGED <<sent, gaps>>
Next == Send \/ Finish
Spec == Init /\ [][Next]_vars

\* what the reader must yield, call by call (events of Events.tla without positions)
RECURSIVE Expected(_, _)
Expected(k, acc) ==
  IF k > Len(sent)
  THEN acc \o (IF Len(tail) > 0 THEN <<<<9, 0, Len(tail)>>>> ELSE <<>>) \o <<<<10>>>>
  ELSE LET p == Encode(Files[sent[k][1]], sent[k][2]) IN
       Expected(k + 1, acc \o (IF Len(gaps[k]) > 0 THEN <<<<2, Len(gaps[k])>>>> ELSE <<>>) \o <<<<1>> \o p>>)

NoPos(evs) == [j \in 1..Len(evs) |-> SubSeq(evs[j], 2, Len(evs[j]))]
Payloads(evs) == SelectSeq(evs, LAMBDA e : e[2] = 1)

LinkOK ==
  phase = "done" =>
    LET obs == R!ReaderObs(R!CapInf, wire) IN
    /\ NoPos(obs) = Expected(1, <<>>)
    /\ \A k \in 1..Len(sent) :
         LET p == SubSeq(Payloads(obs)[k], 3, Len(Payloads(obs)[k]))
             o == ParseFile(p) IN
         /\ o.ok /\ o.v = Files[sent[k][1]] /\ o.i = Len(p) + 1        \* the allocating parser returns the file that was sent
         /\ StreamAgrees(p)                                            \* and the event stream reassembles to the same file
    \* the push loop, decode() and decode_streaming agree with the reader on the same wire
    /\ R!FrontEndsAgree(R!CapInf, wire)
=============================================================================
