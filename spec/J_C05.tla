---- MODULE J_C05 ----
EXTENDS Frame, Events, Json, IOUtils, TLC
(* C05: every call returns normally (no panic / runaway), and after any history the object is still usable:
   finalize, then an empty frame, then finalize yields exactly ok(<<>>) and a clean end. *)
Bytes(ops) == Len(SelectSeq(ops, LAMBDA o : o < 256))
Mon(r) ==
  /\ ~AnyAbnormal(r.e)
  /\ r.cap # -2
  /\ IF r.cap = -4 THEN \A k \in 1..Len(r.e) : r.e[k][2] \in {1, 3}      \* encoders: a frame or OutOfMemory, nothing else
     ELSE IF r.cap = -3
     THEN \E k \in 1..Len(r.e) : r.e[k][2] = 1 /\ r.e[k][3] = 0 /\ r.e[k][1] \in {r.T, -1}
                                  /\ \A j \in (k + 1)..Len(r.e) : r.e[j][2] \in {10, 6}
     ELSE LET T == Bytes(r.ops) L == Len(r.e) IN
          /\ L >= 3
          /\ r.e[L] = <<T, 6, 0, 0>>
          /\ r.e[L - 1] = <<T, 1>>
          /\ r.e[L - 2][2] = 6 /\ r.e[L - 2][1] = T - 16

\* ---- batch judge loop (generated boilerplate, see bin/vf) ---------------
Recs == ndJsonDeserialize(IOEnv.VF_TRACE)
NR == Len(Recs)
CH == 64
VARIABLES ch, i
jvars == <<ch, i>>
JInit == ch \in 1..CH /\ i = ch
JStep == /\ i <= NR
         /\ IF Mon(Recs[i]) THEN TRUE ELSE PrintT(<<"REJECT", i>>)
         /\ i' = i + CH /\ UNCHANGED ch
JSpec == JInit /\ [][JStep]_jvars
=============================================================================
