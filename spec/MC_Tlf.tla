------------------------------- MODULE MC_Tlf -------------------------------
(***************************************************************************)
(* C12 (TLF part) on the specification: the 32-bit TLF machine (U32 pair   *)
(* arithmetic, overflow test ShiftCheck) against the arbitrary-precision   *)
(* rule TlfRef, for every byte string grown from FirstBytes by NextBytes   *)
(* up to MaxLen bytes (a TLF ends at the first byte without the "more"     *)
(* bit; strings are grown only while the TLF is incomplete).               *)
(***************************************************************************)
EXTENDS Tlf, TLC
CONSTANTS FirstBytes, NextBytes, MaxLen
VARIABLE x
AllBytes == 0..255
SomeNext == {0, 1, 2, 11, 15, 16, 127, 128, 129, 143, 144, 255}
SomeFirst == {128, 129, 143, 193, 208, 209, 224, 225, 240, 241, 255}
FewNext == {128, 143, 0, 1, 11, 15}
Init == x = <<>>
Grow == /\ Len(x) < MaxLen
        /\ (IF x = <<>> THEN TRUE ELSE Last(x) >= 128)
        /\ \E b \in (IF x = <<>> THEN FirstBytes ELSE NextBytes) : x' = Append(x, b)
Spec == Init /\ [][Grow]_x
Exact == x # <<>> => TlfExact(x)
=============================================================================
