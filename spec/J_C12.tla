---- MODULE J_C12 ----
EXTENDS StreamParser, Json, IOUtils, TLC
(* C12: every type-length field and primitive is decoded exactly as the SML rule prescribes or rejected: the events
   of the real streaming parser up to its first error equal those of the specification, and an error occurs in one
   iff it occurs in the other (the error *kind* is not part of the property). *)
IsErr(e) == e[1] \notin {1, 2, 3}
Data(evs) == SelectSeq(evs, LAMBDA e : ~IsErr(e))
HasErr(evs) == \E k \in 1..Len(evs) : IsErr(evs[k])
Mon(r) ==
  LET s == StreamItems(r.x).items o == ParseFile(r.x) IN
  /\ Data(r.ev) = Data(s) /\ HasErr(r.ev) = HasErr(s)
  /\ (r.c[1] = 1) = o.ok
  /\ (o.ok => r.c = <<1, o.v>>)

\* ---- batch judge loop (generated boilerplate, see bin/vf) ---------------
Recs == ndJsonDeserialize(IOEnv.VF_TRACE)
NR == Len(Recs)
CH == 64
VARIABLES ch, i
jvars == <<ch, i>>
JInit == ch \in 1..CH /\ i = ch
JStep == /\ i <= NR
         /\ IF Mon(Recs[i]) THEN TRUE ELSE PrintT(<<"REJECT", i>>)
         /\ i' = i + CH /\ UNCHANGED ch
JSpec == JInit /\ [][JStep]_jvars
=============================================================================
