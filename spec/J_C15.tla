---- MODULE J_C15 ----
EXTENDS Events, Json, IOUtils, TLC
(* C15: all front-ends report the same results modulo the representation of leftover bytes. *)
N(r, k) == Norm(r.obs[k].c, r.obs[k].e)
PosAgree(a, b) == \A j \in 1..Len(a) : a[j] = -1 \/ b[j] = -1 \/ a[j] = b[j]
Mon(r) ==
  /\ Len(r.obs) >= 1
  /\ \A k \in 1..Len(r.obs) : N(r, k).wf
  /\ \A k \in 2..Len(r.obs) :
        /\ ResNoPos(N(r, k)) = ResNoPos(N(r, 1))
        /\ N(r, k).left = N(r, 1).left
        /\ PosAgree(ResPos(N(r, k)), ResPos(N(r, 1)))

\* ---- batch judge loop (generated boilerplate, see bin/vf) ---------------
Recs == ndJsonDeserialize(IOEnv.VF_TRACE)
NR == Len(Recs)
CH == 64
VARIABLES ch, i
jvars == <<ch, i>>
JInit == ch \in 1..CH /\ i = ch
JStep == /\ i <= NR
         /\ IF Mon(Recs[i]) THEN TRUE ELSE PrintT(<<"REJECT", i>>)
         /\ i' = i + CH /\ UNCHANGED ch
JSpec == JInit /\ [][JStep]_jvars
=============================================================================
