------------------------------- MODULE Frame -------------------------------
(***************************************************************************)
(* SML Transport Protocol v1 - the frame definition, written from the      *)
(* protocol description (src/transport/mod.rs module docs / BSI TR-03109-1 *)
(* Anlage IV), independent of both encoders and of the decoder:            *)
(*   start sequence 1b1b1b1b 01010101                                      *)
(*   payload, with 1b1b1b1b inserted after every 4th consecutive 0x1b      *)
(*   0..3 zero bytes up to a multiple of four                              *)
(*   end sequence 1b1b1b1b 1a <pad count> <crc lo> <crc hi>                *)
(*   crc = CRC-16/X.25 over everything before it                           *)
(***************************************************************************)
EXTENDS Bytes, Crc16

ESC == 27
StartSeq == <<27, 27, 27, 27, 1, 1, 1, 1>>
EscSeq == <<27, 27, 27, 27>>

RECURSIVE EscapeFrom(_, _, _)
EscapeFrom(p, i, run) ==
  IF i > Len(p) THEN <<>>
  ELSE IF p[i] = ESC /\ run = 3
       THEN <<ESC, 27, 27, 27, 27>> \o EscapeFrom(p, i + 1, 0)
       ELSE <<p[i]>> \o EscapeFrom(p, i + 1, IF p[i] = ESC THEN run + 1 ELSE 0)
Escape(p) == EscapeFrom(p, 1, 0)

PadCountOfLen(n) == (4 - (n % 4)) % 4

Canonical(p) ==
  LET e    == Escape(p)
      pad  == PadCountOfLen(Len(e))
      body == StartSeq \o e \o Rep(0, pad) \o <<27, 27, 27, 27, 26, pad>>
      c    == Crc16(body)
  IN body \o <<c % 256, c \div 256>>

\* number of escape insertions = floor(run/4) summed over maximal 1b runs; scanned in blocks of 256 bytes with
\* accumulators so that the recursion depth stays at |p| / 256 + 256 (payloads of 2^16 and more bytes are judged)
RECURSIVE EscScanRange(_, _, _, _, _)
EscScanRange(p, i, j, cnt, run) ==
  IF i > j THEN <<cnt, run>>
  ELSE IF p[i] = ESC /\ run = 3 THEN EscScanRange(p, i + 1, j, cnt + 1, 0)
       ELSE EscScanRange(p, i + 1, j, cnt, IF p[i] = ESC THEN run + 1 ELSE 0)
RECURSIVE EscScanFrom(_, _, _, _)
EscScanFrom(p, i, cnt, run) ==
  IF i > Len(p) THEN cnt
  ELSE LET j == IF i + 255 > Len(p) THEN Len(p) ELSE i + 255
           r == EscScanRange(p, i, j, cnt, run)
       IN EscScanFrom(p, j + 1, r[1], r[2])
EscCountFrom(p, i, run) == EscScanFrom(p, i, 0, run)
FrameLen(p) ==
  LET e == Len(p) + 4 * EscCountFrom(p, 1, 0) IN 8 + e + PadCountOfLen(e) + 8

ASSUME Canonical(<<18, 52, 86, 120>>) =
         <<27,27,27,27,1,1,1,1,18,52,86,120,27,27,27,27,26,0,184,123>>
ASSUME FrameLen(<<27,27,27,27,5>>) = Len(Canonical(<<27,27,27,27,5>>))
=============================================================================
