---- MODULE J_C07 ----
EXTENDS FrameRle, Events, Json, IOUtils, TLC
(* C07: both encoders emit exactly Canonical(p); iterator fused; OutOfMemory iff capacity < frame length. *)
EncIds(r) == UNION { { r.encs[k].f[j] : j \in 1..Len(r.encs[k].f) } : k \in 1..Len(r.encs) }
MonRle(r) ==
  /\ IsMaximalRle(r.p)
  /\ Len(r.encs) = 1 /\ r.encs[1].k = 0 /\ r.encs[1].b = CanonicalRle(r.p)
  /\ {1, 2, 3} \subseteq EncIds(r)
  /\ r.fused = 0
MonPlain(r) ==
  LET c == Canonical(r.p) IN
  /\ Len(r.encs) = 1 /\ r.encs[1].k = 0 /\ r.encs[1].b = c
  /\ {1, 2, 3} \subseteq EncIds(r)
  /\ r.fused = 0
  /\ \A k \in 1..Len(r.caps) :
       LET x == r.caps[k] IN
       /\ x[2] \in {0, 3}
       /\ (x[2] = 3) = (x[1] < Len(c))
       /\ (x[2] = 0 => x[3] = Len(c) /\ x[4] = 1)
Mon(r) == IF r.rle = 1 THEN MonRle(r) ELSE MonPlain(r)

\* ---- batch judge loop (generated boilerplate, see bin/vf) ---------------
Recs == ndJsonDeserialize(IOEnv.VF_TRACE)
NR == Len(Recs)
CH == 64
VARIABLES ch, i
jvars == <<ch, i>>
JInit == ch \in 1..CH /\ i = ch
JStep == /\ i <= NR
         /\ IF Mon(Recs[i]) THEN TRUE ELSE PrintT(<<"REJECT", i>>)
         /\ i' = i + CH /\ UNCHANGED ch
JSpec == JInit /\ [][JStep]_jvars
=============================================================================
