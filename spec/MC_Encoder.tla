----------------------------- MODULE MC_Encoder -----------------------------
(***************************************************************************)
(* Both encoders as a state machine: the payload is built byte by byte     *)
(* (action Grow), then the iterator encoder is stepped one next() call at  *)
(* a time (action EncStep) including calls after it ended (fusedness), and *)
(* the buffer encoder is evaluated for every capacity around the frame     *)
(* length.  Properties: C07 (wire format, agreement, fused, OOM rule) and  *)
(* the C05 clause "the assert / unreachable arms are never reached".       *)
(***************************************************************************)
EXTENDS Encoder, TLC

CONSTANTS PayBytes, PayLen, ExtraCalls

VARIABLES p,      \* payload (grown first)
          phase,  \* "grow" | "enc" | "done"
          e,      \* iterator encoder state
          outp,   \* bytes emitted so far
          nones   \* number of next() calls that returned None

vars == <<p, phase, e, outp, nones>>

Init == p = <<>> /\ phase = "grow" /\ e = EncInit /\ outp = <<>> /\ nones = 0

Grow == phase = "grow" /\ Len(p) < PayLen /\ \E b \in PayBytes : p' = Append(p, b)
        /\ UNCHANGED <<phase, e, outp, nones>>
Start == phase = "grow" /\ phase' = "enc" /\ UNCHANGED <<p, e, outp, nones>>
EncStep ==
  /\ phase = "enc" /\ nones <= ExtraCalls
  /\ LET r == EncNext(e, p) IN
       /\ e' = r.e
       /\ IF r.out = EncNone THEN nones' = nones + 1 /\ outp' = outp
          ELSE nones' = nones /\ outp' = Append(outp, r.out)
  /\ UNCHANGED <<p, phase>>
Next == Grow \/ Start \/ EncStep
Spec == Init /\ [][Next]_vars /\ WF_vars(EncStep)

\* ---- properties ---------------------------------------------------------
CapInfE == 1073741824
NoPanicArm == outp = <<>> \/ Last(outp) # EncPanic
IterPrefix == phase = "enc" => IsPrefixOf(outp, Canonical(p))     \* every emitted byte is right
IterComplete == nones > 0 => outp = Canonical(p)                  \* ... and None only after the last one
Fused == nones > 0 => EncNext(e, p).out = EncNone                 \* once ended, ended for good
PadCounter == (phase = "enc" /\ e.st = "Looking") => (e.pad + (e.i - 1)) % 4 = 0
BufAgrees == phase = "enc" => BufEncode(p, CapInfE).bytes = Canonical(p) /\ BufEncode(p, CapInfE).ok
OomRule == phase = "enc" =>
             \A N \in 0..(FrameLen(p) + 2) : BufEncode(p, N).ok = (N >= FrameLen(p))
BufNoPartial == phase = "enc" =>
             \A N \in 0..(FrameLen(p) + 2) : BufEncode(p, N).ok => BufEncode(p, N).bytes = Canonical(p)
Terminates == <>(phase = "enc" /\ nones > 0) \/ []<>(phase = "grow")
Ends == (phase = "enc") ~> (nones > 0)
=============================================================================
