---------------------------- MODULE MC_Contract ----------------------------
(***************************************************************************)
(* Refinement check: every behaviour of the decoder specification          *)
(* (DecoderSM over the token families of MC_Decoder) is accepted by the    *)
(* user-level contract (Contract.tla).  cs is the contract's state, driven *)
(* only by what a user sees: the bytes pushed and the reports returned.    *)
(***************************************************************************)
EXTENDS MC_Decoder, Contract

VARIABLE cs

CSpecInit == Init /\ cs = CInit0
CSpecNext == Next /\ cs' = ContractStep(stream', last', cs, dec.cap)
CSpec == CSpecInit /\ [][CSpecNext]_<<vars, cs>>

\* the decoder specification never leaves the contract
Refines == cs.ok
\* the contract's boundary is the one the tiling ghost of DecoderSM computes
SameBoundary == tiled => cs.b = bnd
\* the contract's "open" flag agrees with the decoder being inside a transmission
OpenAgrees == cs.open = (dec.st \in {"normal", "escchars", "escpayload"})
\* ties proofs/ZeroCache to the detailed decoder: between escapes, the buffer followed by the withheld zeros is exactly
\* the unescaped data of the open transmission, and as many zeros are withheld as the data ends with (at most 4)
ZeroCacheInv ==
  (dec.st = "normal" /\ cs.open /\ cs.ok) =>
    LET data == Unescape(SubSeq(stream, cs.b + 9, Len(stream)), 1) IN
    /\ dec.buf \o Rep(0, dec.zc) = data
    /\ dec.zc = Min(TrailingRun(data, 0), 4)
=============================================================================
