----------------------------- MODULE DecoderSM -----------------------------
(***************************************************************************)
(* State machine over the Decoder operators: one TLC state per stimulus    *)
(* *token* (a byte, a start sequence, a half escape, an end sequence with  *)
(* an adversarially chosen checksum, a whole frame, finalize(), reset()).  *)
(* History variables (stream, last) are needed by the invariants and the   *)
(* reachable graph is a tree bounded by MaxTok, so they are not hidden.    *)
(*                                                                         *)
(* Properties stated here: C02 Sound, C05 TypeOK/Usable, C08 Resync,       *)
(* C14 BoundaryFresh, C16 Capacity (with Caps), C17 Tiles.                 *)
(***************************************************************************)
EXTENDS Decoder, Encoder, TLC

CONSTANTS Tokens,      \* set of token descriptors (see Tok* below)
          FirstTokens, \* tokens allowed as the first token
          MaxTok,      \* bound on the number of tokens
          Caps         \* buffer capacities of the decoder under test (one is chosen initially)

VARIABLES dec,     \* decoder state record
          stream,  \* all bytes pushed so far
          last,    \* events produced by the last token: <<pos, out>>
          starts,  \* offsets at which START / FRAME tokens began
          nt,      \* number of tokens consumed
          bnd,     \* ghost: offset of the last transmission boundary (C17)
          tiled,   \* ghost: FALSE once an event broke the tiling rule (C17)
          ctx      \* ghost: the last token and the decoder situation it met

vars == <<dec, stream, last, starts, nt, bnd, tiled, ctx>>

\* ---- token descriptors --------------------------------------------------
TokByte(b)        == <<"b", b>>
TokStart          == <<"start">>
TokEsc4           == <<"esc4">>
TokEnd(pad, mode) == <<"end", pad, mode>>   \* mode: "cur" | "last" | "first" | "bad"
TokCrc            == <<"crc">>            \* two checksum bytes alone: whatever would make the decoder's next comparison succeed
TokFrame(p)       == <<"frame", p>>       \* Canonical(p), the definition
TokEncFrame(p, w) == <<"enc", p, w>>      \* output of encoder w: "iter" | "buf"
TokFin            == <<"fin">>
TokRst            == <<"rst">>

IsCall(t) == t[1] \in {"fin", "rst"}

\* checksum an adversary would put behind `pre \o <<27,27,27,27,26,pad>>`
EndCrc(pad, mode) ==
  LET tail == <<27, 27, 27, 27, 26, pad>>
      from == IF starts = <<>> THEN 0
              ELSE IF mode = "first" THEN starts[1] ELSE starts[Len(starts)]
  IN CASE mode = "cur" ->
            \* the checksum the decoder itself will compute for its current reading
            LET r == Run(dec, <<27, 27, 27, 27, 26, pad>>)
            IN IF r.d.st = "escpayload" /\ r.d.step = 2 /\ r.d.pl[1] = 26
               THEN CrcFin(CrcFeed(r.d.crc, <<26, pad>>))
               ELSE Crc16(Drop(stream, from) \o tail)
       [] mode = "bad" -> (Crc16(Drop(stream, from) \o tail) + 1) % 65536
       [] OTHER -> Crc16(Drop(stream, from) \o tail)

\* the two bytes an adversary sends when the decoder is about to compare a checksum - in whatever way it got there
\* (a regular end sequence, an end marker behind a re-aligned or damaged escape sequence, ...); in every other
\* situation: the checksum of everything since the last start sequence
RawCrc ==
  LET from == IF starts = <<>> THEN 0 ELSE starts[Len(starts)]
  IN IF dec.st = "escpayload" /\ dec.step = 2
     THEN CrcFin(CrcFeed(dec.crc, <<dec.pl[1], dec.pl[2]>>))
     ELSE Crc16(Drop(stream, from))

BytesOf(t) ==
  CASE t[1] = "b"     -> <<t[2]>>
    [] t[1] = "crc"   -> LET c == RawCrc IN <<c % 256, c \div 256>>
    [] t[1] = "start" -> StartSeq
    [] t[1] = "esc4"  -> EscSeq
    [] t[1] = "end"   -> LET c == EndCrc(t[2], t[3])
                         IN <<27, 27, 27, 27, 26, t[2], c % 256, c \div 256>>
    [] t[1] = "frame" -> Canonical(t[2])
    [] t[1] = "enc"   -> IF t[3] = "iter" THEN IterEncode(t[2]).bytes
                         ELSE BufEncode(t[2], CapInf).bytes
    [] t[1] = "badframe" -> LET c == Canonical(<<51>>) IN [c EXCEPT ![Len(c)] = (@ + 1) % 256]
    [] t[1] = "badesc"   -> StartSeq \o <<27, 27, 27, 27, 28, 0, 0, 0>>
    [] OTHER          -> <<>>

\* ---- tiling ghost (C17) -------------------------------------------------
\* fold the events of one token over (bnd, tiled)
RECURSIVE TileFold(_, _, _, _)
TileFold(evs, i, b, ok) ==
  IF i > Len(evs) THEN [bnd |-> b, ok |-> ok]
  ELSE LET pos == evs[i][1]
           o   == evs[i][2]
       IN CASE o.k = "disc" -> TileFold(evs, i + 1, b + o.n, ok /\ pos = b + o.n + 8)
            [] o.k = "ok"   -> TileFold(evs, i + 1, pos, ok /\ pos - FrameLen(o.m) = b)
            [] o.k \in {"oom", "invmsg", "invesc"} -> TileFold(evs, i + 1, pos, ok)
            [] o.k \in {"fin", "rst"} -> TileFold(evs, i + 1, pos, ok /\ o.n = pos - b)
            [] OTHER -> TileFold(evs, i + 1, b, ok)

\* ---- actions ------------------------------------------------------------
Init ==
  /\ \E c \in Caps : dec = InitDec(c)
  /\ stream = <<>> /\ last = <<>> /\ starts = <<>>
  /\ nt = 0 /\ bnd = 0 /\ tiled = TRUE
  /\ ctx = [tok |-> <<"none">>, st |-> "look", raw |-> 0, g |-> <<>>]

Apply(t) ==
  LET bs == BytesOf(t)
      r  == RunFrom(dec, bs, 1, Len(stream), <<>>)
      T  == Len(stream) + Len(bs)
      callEv ==
        IF t[1] = "fin"
        THEN <<<<T, [k |-> "fin", n |-> IF FinalizeOut(r.d).k = "disc" THEN FinalizeOut(r.d).n ELSE 0,
                     some |-> FinalizeOut(r.d).k = "disc"]>>>>
        ELSE IF t[1] = "rst"
        THEN <<<<T, [k |-> "rst", n |-> ResetCount(r.d)]>>>>
        ELSE <<>>
      evs == r.evs \o callEv
      tf  == TileFold(evs, 1, bnd, tiled)
  IN /\ dec' = IF IsCall(t) THEN ResetD(r.d) ELSE r.d
     /\ stream' = stream \o bs
     /\ last' = evs
     /\ starts' = IF t[1] \in {"start", "frame", "enc"} THEN Append(starts, Len(stream)) ELSE starts
     /\ ctx' = [tok |-> t, st |-> dec.st, raw |-> dec.raw,
                g |-> IF dec.st = "look" THEN Drop(stream, Len(stream) - dec.raw) ELSE <<>>]
     /\ nt' = nt + 1
     /\ bnd' = tf.bnd
     /\ tiled' = tf.ok

\* Named per token kind so that -coverage shows each being exercised.
FeedByte   == \E t \in Tokens : t[1] = "b"     /\ Apply(t)
FeedStart  == \E t \in Tokens : t[1] = "start" /\ Apply(t)
FeedEsc4   == \E t \in Tokens : t[1] = "esc4"  /\ Apply(t)
FeedEnd    == \E t \in Tokens : t[1] \in {"end", "crc"} /\ Apply(t)
FeedFrame  == \E t \in Tokens : t[1] \in {"frame", "enc"} /\ Apply(t)
CallFin    == \E t \in Tokens : t[1] = "fin"   /\ Apply(t)
CallRst    == \E t \in Tokens : t[1] = "rst"   /\ Apply(t)
FeedFirst  == nt = 0 /\ \E t \in FirstTokens : Apply(t)

Next ==
  \/ FeedFirst
  \/ /\ nt > 0 /\ nt < MaxTok
     /\ (FeedByte \/ FeedStart \/ FeedEsc4 \/ FeedEnd \/ FeedFrame \/ CallFin \/ CallRst)

Spec == Init /\ [][Next]_vars

\* ---- properties ---------------------------------------------------------
Outs == { last[i] : i \in 1..Len(last) }

\* C05: the state record stays well typed, whatever is pushed or called
TypeOK == DecTypeOK(dec) /\ dec.cap \in Caps

\* C02: a payload is reported only when the stream ends with its canonical frame
Sound ==
  \A e \in Outs : e[2].k = "ok" => IsSuffixOf(Canonical(e[2].m), Take(stream, e[1]))

\* anti-vacuity control for the bare checksum token (must be VIOLATED): the token does complete transmissions,
\* also behind a re-aligned escape sequence (payload ending in 1-3 x 0x1b), so Sound is exercised on those paths
CrcTokenNeverAccepted ==
  ~(ctx.tok[1] = "crc" /\ \E e \in Outs : e[2].k = "ok" /\ Len(e[2].m) > 0 /\ Last(e[2].m) = 27)

\* C17: events tile the stream
Tiles == tiled

\* C05 "remains usable" / C14: after every error or call the decoder is idle,
\* i.e. indistinguishable from a new one (crc is dead state until the next start)
BoundaryFresh ==
  (last # <<>> /\ Last(last)[2].k \in {"ok", "oom", "invmsg", "invesc", "fin", "rst"}
      /\ Last(last)[1] = Len(stream))
    => IsIdle(dec)

\* C14 behavioural form: an idle decoder answers every next byte exactly like a
\* new one (the state-based form above plus this one-step form give, by
\* induction over the continuation, equality on all continuations).
ProbeBytes == {27, 1, 26, 0, 85}
IdleStepEq ==
  IsIdle(dec) =>
    \A b \in ProbeBytes :
      LET a == Step(dec, b)
          f == Step(InitDec(dec.cap), b)
      IN a.out = f.out /\ Proj(a.d) = Proj(f.d)

\* C08 matcher form: while searching, the matched count is exactly the longest
\* suffix of the bytes since the last boundary that is a prefix of StartSeq.
LongestStartPrefix(s) ==
  CHOOSE k \in 0..7 :
    /\ IsSuffixOf(Take(StartSeq, k), s)
    /\ \A j \in (k + 1)..7 : ~IsSuffixOf(Take(StartSeq, j), s)
MatcherExact ==
  dec.st = "look" => dec.ninit = LongestStartPrefix(Drop(stream, Len(stream) - dec.raw))

\* C08 as stated: noise without a start sequence, or a frame cut where no escape
\* is in progress, followed by a valid frame.
FrameTok == ctx.tok[1] \in {"frame", "enc"}
ResyncExpected ==
  LET m    == ctx.tok[2]
      T    == Len(stream)
      T0   == T - FrameLen(m)
      dn   == IF ctx.st = "look" THEN Len(ctx.g) ELSE IF ctx.st = "normal" THEN ctx.raw ELSE 0
  IN (IF dn > 0 THEN <<<<T0 + 8, Disc(dn)>>>> ELSE <<>>) \o <<<<T, [k |-> "ok", m |-> m]>>>>
ResyncApplies ==
  /\ FrameTok /\ Len(ctx.tok[2]) <= dec.cap
  /\ \/ ctx.st = "done"
     \/ ctx.st = "normal"
     \/ ctx.st = "look" /\ Occurrences(StartSeq, ctx.g \o StartSeq) = {Len(ctx.g)}
Resync == ResyncApplies => last = ResyncExpected

\* C01: a frame fed to a new decoder yields exactly its payload at its last byte
RoundTrip ==
  (nt = 1 /\ FrameTok) => last = <<<<Len(stream), [k |-> "ok", m |-> ctx.tok[2]]>>>>
NothingAfter ==
  (nt = 2 /\ ctx.tok[1] = "fin") => (last = <<<<Len(stream), [k |-> "fin", n |-> 0, some |-> FALSE]>>>>)

\* C16: with capacity Cap, a frame token met in an idle decoder is delivered iff
\* its payload fits; otherwise out-of-memory is reported inside the frame and no
\* payload is.
CapacityRule ==
  (FrameTok /\ (ctx.st = "done" \/ (ctx.st = "look" /\ ctx.raw = 0))) =>
     IF Len(ctx.tok[2]) <= dec.cap
     THEN last = <<<<Len(stream), [k |-> "ok", m |-> ctx.tok[2]]>>>>
     ELSE /\ \E e \in Outs : e[2].k = "oom"
          /\ \A e \in Outs : e[2].k # "ok" \/ e[2].m # ctx.tok[2]
CapRespect == \A e \in Outs : e[2].k = "ok" => Len(e[2].m) <= dec.cap
=============================================================================
