---------------------------- MODULE ContractWalk ----------------------------
(***************************************************************************)
(* Whole-behaviour trace validation of the real push decoder against the   *)
(* user-level contract (Contract.tla): a recorded trace {ops, e} (ops:     *)
(* bytes, 256 finalize, 257 reset; e: the events Decoder<Vec<u8>>          *)
(* returned, harness encoding of Events.tla) is cut at every call and      *)
(* folded through ContractStepS in the given mode.                         *)
(* Operator module; J_ContractC17 / J_ContractC08 pick the mode, so that   *)
(* each property's check demands exactly what that property states.        *)
(***************************************************************************)
EXTENDS Contract

Out(e) ==
  CASE e[2] = 1 -> [k |-> "ok", m |-> SubSeq(e, 3, Len(e))]
    [] e[2] = 2 /\ Len(e) = 3 -> [k |-> "disc", n |-> e[3]]
    [] e[2] = 3 -> [k |-> "oom"]
    [] e[2] = 4 -> [k |-> "invmsg"]
    [] e[2] = 5 -> [k |-> "invesc"]
    [] e[2] = 6 /\ Len(e) = 4 -> [k |-> "fin", n |-> e[3], some |-> (e[4] = 1)]
    [] e[2] = 7 /\ Len(e) = 3 -> [k |-> "rst", n |-> e[3]]
    [] OTHER -> [k |-> "bad"]
Conv(es) == [x \in 1..Len(es) |-> <<es[x][1], Out(es[x])>>]
WellFormed(e) == \A x \in 1..Len(e) : Len(e[x]) >= 2 /\ e[x][1] >= 0 /\ Out(e[x]).k # "bad"

\* index of the first finalize / reset report at or after j (0: none)
RECURSIVE CallAt(_, _)
CallAt(e, j) == IF j > Len(e) THEN 0 ELSE IF e[j][2] \in {6, 7} THEN j ELSE CallAt(e, j + 1)

RECURSIVE Walk(_, _, _, _, _, _, _, _)
Walk(ops, k, in, e, j, c, mode, cap) ==
  IF k > Len(ops) THEN ContractStepS(in, Conv(SubSeq(e, j, Len(e))), c, cap, mode).ok
  ELSE IF ops[k] < 256 THEN Walk(ops, k + 1, Append(in, ops[k]), e, j, c, mode, cap)
  ELSE LET jj == CallAt(e, j) IN
       /\ jj # 0 /\ e[jj][2] = (IF ops[k] = 256 THEN 6 ELSE 7)
       /\ LET c1 == ContractStepS(in, Conv(SubSeq(e, j, jj)), c, cap, mode) IN
          c1.ok /\ Walk(ops, k + 1, in, e, jj + 1, c1, mode, cap)

\* capacity of the decoder that produced the record (growable when the record does not say)
CapOf(r) == IF "cap" \in DOMAIN r THEN r.cap ELSE 1073741824

\* records of the reader front-ends (field fe) and run-length records are left to J_C17; traces longer than 600
\* operations are skipped (TLC's recursion depth)
Applies(r) == "ops" \in DOMAIN r /\ ~("fe" \in DOMAIN r) /\ Len(r.ops) <= 600
=============================================================================
