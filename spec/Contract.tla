------------------------------ MODULE Contract ------------------------------
(***************************************************************************)
(* The user-level contract of the transport-v1 decoder, stated without any *)
(* reference to the decoder's internal state: what may and what must be    *)
(* reported for a byte stream.  It combines, as one trace acceptor, what   *)
(* the listed properties say one at a time:                                *)
(*   C01/C08  a canonical frame that starts at a boundary is delivered     *)
(*            (obligation), and after an idle boundary the first start     *)
(*            sequence is found and the noise before it reported once      *)
(*   C02      a payload is reported only for its canonical frame           *)
(*   C16      payloads never exceed the capacity; out-of-memory only when  *)
(*            more than `cap` bytes of the transmission were consumed      *)
(*   C17      reports tile the stream                                      *)
(* plus the shape of the error reports (which bytes an InvalidMessage /    *)
(* InvalidEsc report refers to and what its fields mean).                  *)
(*                                                                         *)
(* Contract state:  b     offset of the last boundary                      *)
(*                  open  a transmission has begun at b (in[b+1..b+8] is   *)
(*                        the start sequence and was recognised)           *)
(*                  ok    FALSE once a step broke the contract (sticky)    *)
(* Events are DecoderSM's <<pos, out>> pairs.                              *)
(*                                                                         *)
(* MC_Contract checks that the decoder specification refines this contract *)
(* (every step of DecoderSM is a step the contract accepts); the code is   *)
(* bound to the decoder specification by J_Conf and the per-property       *)
(* monitors.  Operator module (no VARIABLES).                              *)
(***************************************************************************)
EXTENDS Frame

CInit0 == [b |-> 0, open |-> FALSE, ok |-> TRUE]

\* greedy inverse of Frame.Escape
RECURSIVE Unescape(_, _)
Unescape(s, i) ==
  IF i > Len(s) THEN <<>>
  ELSE IF i + 7 <= Len(s) /\ SubSeq(s, i, i + 7) = EscSeq \o EscSeq
       THEN EscSeq \o Unescape(s, i + 8)
       ELSE <<s[i]>> \o Unescape(s, i + 1)

\* in[b+1..p] is the canonical frame of a payload: [is |-> TRUE, m |-> payload] or [is |-> FALSE]
FrameAt(in, b, p) ==
  IF /\ p - b >= 16 /\ (p - b) % 4 = 0 /\ p <= Len(in)
     /\ SubSeq(in, b + 1, b + 8) = StartSeq
     /\ SubSeq(in, p - 7, p - 3) = <<27, 27, 27, 27, 26>>
     /\ in[p - 2] <= 3 /\ in[p - 2] <= p - b - 16
  THEN LET m == Unescape(SubSeq(in, b + 9, p - 8 - in[p - 2]), 1) IN
       IF Canonical(m) = SubSeq(in, b + 1, p) THEN [is |-> TRUE, m |-> m] ELSE [is |-> FALSE]
  ELSE [is |-> FALSE]

\* end offset of the first start sequence that begins at or after b and ends at or before upto (0: none)
RECURSIVE StartFrom(_, _, _)
StartFrom(in, q, hi) == IF q > hi THEN 0 ELSE IF SubSeq(in, q - 7, q) = StartSeq THEN q ELSE StartFrom(in, q + 1, hi)
FirstStartEnd(in, b, upto) == StartFrom(in, b + 8, Min(upto, Len(in)))

\* end offset of the first canonical frame of a fitting payload that begins at b and ends at or before upto (0: none)
RECURSIVE FrameFrom(_, _, _, _, _)
FrameFrom(in, b, cap, p, hi) ==
  IF p > hi THEN 0
  ELSE LET f == FrameAt(in, b, p) IN
       IF f.is /\ Len(f.m) <= cap THEN p ELSE FrameFrom(in, b, cap, p + 4, hi)
FirstFrameEnd(in, b, cap, upto) == FrameFrom(in, b, cap, b + 16, Min(upto, Len(in)))

\* a start sequence directly at an idle boundary opens the transmission without any report
Opened(in, c, upto) ==
  IF ~c.open /\ c.b + 8 <= Min(upto, Len(in)) /\ SubSeq(in, c.b + 1, c.b + 8) = StartSeq
  THEN [c EXCEPT !.open = TRUE] ELSE c

\* what the contract demands at or before `upto` when nothing has been reported since c:
\*   [pos, k = "disc", n] | [pos, k = "ok", m] | [pos |-> 0] (nothing)
\* mode "strict": everything; "c17": only the report for the noise before the first start sequence after an idle boundary
\* (no gaps, C17); "c08": that report only when a valid frame of a fitting payload begins at that start sequence, and the
\* delivery of a valid frame that begins at the boundary (C08 / C01 / C14)
Demand(in, c0, cap, upto, mode) ==
  LET c == Opened(in, c0, upto) IN
  IF c.open
  THEN IF mode = "c17" THEN [pos |-> 0]
       ELSE LET p == FirstFrameEnd(in, c.b, cap, upto) IN
            IF p = 0 THEN [pos |-> 0] ELSE [pos |-> p, k |-> "ok", m |-> FrameAt(in, c.b, p).m]
  ELSE LET q == FirstStartEnd(in, c.b, upto) IN
       IF q = 0 \/ (mode = "c08" /\ FirstFrameEnd(in, q - 8, cap, Len(in)) = 0) THEN [pos |-> 0]
       ELSE [pos |-> q, k |-> "disc", n |-> q - 8 - c.b]

CrcField(in, pos) == in[pos - 1] + 256 * in[pos]

\* is event <<pos, o>> allowed in contract state c (already `Opened`), and the state after it.
\* mode "strict": everything, incl. which bytes each error report refers to and what its fields mean (used for the
\*   refinement check of the decoder specification);
\* mode "c17": exactly the tiling rules of C17 (ranges and counts, the start sequence that triggered a count);
\* mode "c08": nothing is checked here - the reports only move the boundary (the demands are checked in CFold).
After(in, c, cap, pos, o, mode) ==
  LET bad == [c EXCEPT !.ok = FALSE] IN
  CASE mode = "c08" ->
         IF o.k = "disc" THEN [b |-> c.b + o.n, open |-> TRUE, ok |-> c.ok] ELSE [b |-> pos, open |-> FALSE, ok |-> c.ok]
    [] mode = "c17" /\ o.k = "ok" ->
         IF pos - FrameLen(o.m) = c.b THEN [b |-> pos, open |-> FALSE, ok |-> c.ok] ELSE bad
    [] mode = "c17" /\ o.k = "disc" ->
         IF pos = c.b + o.n + 8 /\ pos <= Len(in) /\ SubSeq(in, pos - 7, pos) = StartSeq
         THEN [b |-> c.b + o.n, open |-> TRUE, ok |-> c.ok] ELSE bad
    [] mode = "c17" /\ o.k \in {"oom", "invmsg", "invesc"} ->
         IF pos > c.b THEN [b |-> pos, open |-> FALSE, ok |-> c.ok] ELSE bad
    [] mode = "c17" /\ o.k = "fin" ->
         IF o.n = pos - c.b /\ (~o.some => o.n = 0) THEN [b |-> pos, open |-> FALSE, ok |-> c.ok] ELSE bad
    [] mode = "c17" /\ o.k = "rst" ->
         IF o.n = pos - c.b THEN [b |-> pos, open |-> FALSE, ok |-> c.ok] ELSE bad
    [] o.k = "ok" ->
         IF /\ c.open /\ Len(o.m) <= cap /\ pos - c.b = FrameLen(o.m)
            /\ SubSeq(in, c.b + 1, pos) = Canonical(o.m)
         THEN [b |-> pos, open |-> FALSE, ok |-> c.ok] ELSE bad
    [] o.k = "disc" ->
         IF /\ o.n >= 1 /\ pos = c.b + o.n + 8 /\ SubSeq(in, pos - 7, pos) = StartSeq
            /\ (c.open => o.n >= 8)                      \* a restart drops at least the old start sequence
         THEN [b |-> c.b + o.n, open |-> TRUE, ok |-> c.ok] ELSE bad
    [] o.k = "oom" ->
         IF c.open /\ cap < 1073741824 /\ pos - (c.b + 8) > cap
         THEN [b |-> pos, open |-> FALSE, ok |-> c.ok] ELSE bad
    [] o.k = "invmsg" ->
         IF /\ c.open /\ pos - c.b >= 16
            /\ SubSeq(in, pos - 7, pos - 3) = <<27, 27, 27, 27, 26>>
            /\ o.pad = in[pos - 2]
            /\ o.mis = ((pos - c.b) % 4 # 0)
            /\ o.crcok = (Crc16(SubSeq(in, c.b + 1, pos - 2)) = CrcField(in, pos))
            /\ (o.pad > 3 => o.padbad)
            /\ (o.mis \/ o.padbad \/ ~o.crcok)
         THEN [b |-> pos, open |-> FALSE, ok |-> c.ok] ELSE bad
    [] o.k = "invesc" ->
         IF /\ c.open /\ pos - c.b >= 16
            /\ SubSeq(in, pos - 7, pos - 4) = EscSeq
            /\ o.pl = SubSeq(in, pos - 3, pos)
            /\ o.pl # EscSeq /\ o.pl # <<1, 1, 1, 1>> /\ o.pl[1] # 26
         THEN [b |-> pos, open |-> FALSE, ok |-> c.ok] ELSE bad
    [] o.k = "fin" ->
         IF pos = Len(in) /\ o.n = pos - c.b /\ o.some = (o.n > 0)
         THEN [b |-> pos, open |-> FALSE, ok |-> c.ok] ELSE bad
    [] o.k = "rst" ->
         IF pos = Len(in) /\ o.n = pos - c.b
         THEN [b |-> pos, open |-> FALSE, ok |-> c.ok] ELSE bad
    [] OTHER -> bad

\* fold the reports of one step (in = the stream after the step)
RECURSIVE CFold(_, _, _, _, _, _)
CFold(in, evs, k, c0, cap, mode) ==
  IF k > Len(evs)
  THEN LET d == Demand(in, c0, cap, Len(in), mode) IN
       IF d.pos # 0 THEN [c0 EXCEPT !.ok = FALSE]          \* a demanded report is missing
       ELSE Opened(in, c0, Len(in))
  ELSE LET pos == evs[k][1]
           o   == evs[k][2]
           d   == Demand(in, c0, cap, pos, mode)
           c   == Opened(in, c0, pos)
       IN IF d.pos # 0 /\ (d.pos < pos \/ o.k # d.k
                           \/ (d.k = "ok" /\ o.m # d.m) \/ (d.k = "disc" /\ o.n # d.n))
          THEN [c0 EXCEPT !.ok = FALSE]                    \* a demanded report is missing or different
          ELSE LET c1 == After(in, c, cap, pos, o, mode) IN
               IF ~c1.ok THEN c1 ELSE CFold(in, evs, k + 1, c1, cap, mode)

ContractStepS(in, evs, c, cap, mode) == IF ~c.ok THEN c ELSE CFold(in, evs, 1, c, cap, mode)
ContractStep(in, evs, c, cap) == ContractStepS(in, evs, c, cap, "strict")

ASSUME Unescape(Escape(<<27, 27, 27, 27, 27, 1, 27, 27, 27, 27, 27, 27, 27, 27>>), 1) = <<27, 27, 27, 27, 27, 1, 27, 27, 27, 27, 27, 27, 27, 27>>
ASSUME FrameAt(Canonical(<<18, 52, 86, 120>>), 0, 20) = [is |-> TRUE, m |-> <<18, 52, 86, 120>>]
ASSUME FrameAt(<<0>> \o Canonical(<<>>), 1, 17) = [is |-> TRUE, m |-> <<>>]
=============================================================================
