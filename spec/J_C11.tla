---- MODULE J_C11 ----
EXTENDS FaultRule, Json, IOUtils, TLC
(* C11: the clauses of FaultRule on the results recorded from the real SmlReader over a fault-injecting io::Read. *)
Mon(r) == IF r.eh = 1 THEN FaultClausesEh(r.items, r.api, r.res, r.clean, r.fresh)
          ELSE FaultClauses(r.items, r.api, r.res, r.clean, r.fresh)

\* ---- batch judge loop (generated boilerplate, see bin/vf) ---------------
Recs == ndJsonDeserialize(IOEnv.VF_TRACE)
NR == Len(Recs)
CH == 64
VARIABLES ch, i
jvars == <<ch, i>>
JInit == ch \in 1..CH /\ i = ch
JStep == /\ i <= NR
         /\ IF Mon(Recs[i]) THEN TRUE ELSE PrintT(<<"REJECT", i>>)
         /\ i' = i + CH /\ UNCHANGED ch
JSpec == JInit /\ [][JStep]_jvars
=============================================================================
