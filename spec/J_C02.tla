---- MODULE J_C02 ----
EXTENDS Frame, Json, IOUtils, TLC
(* C02: a payload m reported after consuming `pre` requires pre to end with Canonical(m). *)
Mon(r) == IsSuffixOf(Canonical(r.m), r.pre)

\* ---- batch judge loop (generated boilerplate, see bin/vf) ---------------
Recs == ndJsonDeserialize(IOEnv.VF_TRACE)
NR == Len(Recs)
CH == 64
VARIABLES ch, i
jvars == <<ch, i>>
JInit == ch \in 1..CH /\ i = ch
JStep == /\ i <= NR
         /\ IF Mon(Recs[i]) THEN TRUE ELSE PrintT(<<"REJECT", i>>)
         /\ i' = i + CH /\ UNCHANGED ch
JSpec == JInit /\ [][JStep]_jvars
=============================================================================
