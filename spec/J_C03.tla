---- MODULE J_C03 ----
EXTENDS StreamParser, Json, IOUtils, TLC
(* C03: every well-formed file (per the generator's intent f and per the independent grammar) is parsed to exactly
   its content by both parsers. *)
Mon(r) ==
  LET o == ParseFile(r.x) ra == Reassemble(r.ev) IN
  /\ (r.f # <<>> => o.ok /\ o.v = r.f[1])
  /\ (o.ok => /\ r.c = <<1, o.v>>
              /\ r.hit = 0 /\ ra.wf /\ ra.err = <<>> /\ ~ra.open /\ ra.msgs = o.v)

\* ---- batch judge loop (generated boilerplate, see bin/vf) ---------------
Recs == ndJsonDeserialize(IOEnv.VF_TRACE)
NR == Len(Recs)
CH == 64
VARIABLES ch, i
jvars == <<ch, i>>
JInit == ch \in 1..CH /\ i = ch
JStep == /\ i <= NR
         /\ IF Mon(Recs[i]) THEN TRUE ELSE PrintT(<<"REJECT", i>>)
         /\ i' = i + CH /\ UNCHANGED ch
JSpec == JInit /\ [][JStep]_jvars
=============================================================================
