SPECIFICATION JSpec
CHECK_DEADLOCK FALSE
CONSTANTS
  ShiftCheck = "mul"
  PendingOnError = "clear"
  PendingWidth = 64
