------------------------------- MODULE Reader -------------------------------
(***************************************************************************)
(* Byte sources, DecoderReader and the decoding front-end loops of sml-rs  *)
(* (src/util.rs:174-371, src/transport/decoder_reader.rs:66-141,           *)
(* src/transport/decode.rs:466-523) over the Decoder operators.            *)
(*                                                                         *)
(* A source is a sequence of items: a byte 0..255, or a fault              *)
(*   WB = 300 (would block), INT = 301 (interrupted), OTH = 302 (other).   *)
(* io::Read sources go through read_exact, which retries on Interrupted    *)
(* and turns Ok(0) into UnexpectedEof; slices and iterators only have      *)
(* bytes and end of input.                                                 *)
(* Results use the harness' event encoding (Events.tla).                   *)
(* Operator module (no VARIABLES).                                         *)
(***************************************************************************)
EXTENDS Decoder, Events

WB  == 300
INT == 301
OTH == 302

\* read_byte on an io::Read source: [k |-> "byte"|"eof"|"wb"|"oth", b, i (next item index)]
RECURSIVE ReadByte(_, _)
ReadByte(items, i) ==
  IF i > Len(items) THEN [k |-> "eof", b |-> 0, i |-> i]
  ELSE IF items[i] < 256 THEN [k |-> "byte", b |-> items[i], i |-> i + 1]
  ELSE IF items[i] = INT THEN ReadByte(items, i + 1)          \* read_exact retries
  ELSE IF items[i] = WB THEN [k |-> "wb", b |-> 0, i |-> i + 1]
  ELSE [k |-> "oth", b |-> 0, i |-> i + 1]

\* read_byte on an embedded-hal 0.2 serial source (util.rs:244-292): no Interrupted, no end of input - an exhausted
\* schedule keeps answering nb::Error::WouldBlock
RECURSIVE ReadByteEh(_, _)
ReadByteEh(items, i) ==
  IF i > Len(items) THEN [k |-> "wbx", b |-> 0, i |-> i]                 \* would-block of the exhausted source
  ELSE IF items[i] < 256 THEN [k |-> "byte", b |-> items[i], i |-> i + 1]
  ELSE IF items[i] = INT THEN ReadByteEh(items, i + 1)
  ELSE IF items[i] = WB THEN [k |-> "wb", b |-> 0, i |-> i + 1]
  ELSE [k |-> "oth", b |-> 0, i |-> i + 1]

BytesBefore(items, i) == Len(SelectSeq(Take(items, i - 1), LAMBDA x : x < 256))

\* outcome of a decoder step as an event at byte position pos
EvOfOut(pos, o) ==
  CASE o.k = "ok"     -> <<pos, 1>> \o o.m
    [] o.k = "disc"   -> <<pos, 2, o.n>>
    [] o.k = "oom"    -> <<pos, 3>>
    [] o.k = "invmsg" -> <<pos, 4, BoolToInt(o.mis), o.pad, BoolToInt(o.padbad), BoolToInt(o.crcok)>>
    [] o.k = "invesc" -> <<pos, 5>> \o o.pl

(***************************************************************************)
(* DecoderReader::read (decoder_reader.rs:66-86): state [d, i]; returns    *)
(* [d, i, ev].                                                             *)
(***************************************************************************)
RECURSIVE RdReadS(_, _, _, _)
RdReadS(src, d, items, i) ==
  LET r == IF src = "eh" THEN ReadByteEh(items, i) ELSE ReadByte(items, i) pos == BytesBefore(items, r.i) IN
  CASE r.k = "byte" ->
         LET s == Step(d, r.b) IN
         IF s.out.k = "none" THEN RdReadS(src, s.d, items, r.i)
         ELSE [d |-> s.d, i |-> r.i, ev |-> EvOfOut(pos, s.out), x |-> FALSE]
    [] r.k = "wb"  -> [d |-> d, i |-> r.i, ev |-> <<pos, 9, 1, 0>>, x |-> FALSE]                       \* decoder state kept
    [] r.k = "wbx" -> [d |-> d, i |-> r.i, ev |-> <<pos, 9, 1, 0>>, x |-> TRUE]
    [] r.k = "eof" -> [d |-> ResetD(d), i |-> r.i, ev |-> <<pos, 9, 0, ResetCount(d)>>, x |-> FALSE]
    [] OTHER       -> [d |-> ResetD(d), i |-> r.i, ev |-> <<pos, 9, 2, ResetCount(d)>>, x |-> FALSE]

RdRead(d, items, i) == RdReadS("io", d, items, i)

\* DecoderReader::next (decoder_reader.rs:101-106): end of input with nothing pending is None
RdNext(d, items, i) ==
  LET r == RdRead(d, items, i) IN
  IF r.ev[2] = 9 /\ r.ev[3] = 0 /\ r.ev[4] = 0 THEN [r EXCEPT !.ev = <<r.ev[1], 10>>] ELSE r

\* read_nb / next_nb (decoder_reader.rs:117-141): would-block becomes nb::Error::WouldBlock (event kind 13)
RdReadNb(d, items, i) ==
  LET r == RdRead(d, items, i) IN IF r.ev[2] = 9 /\ r.ev[3] = 1 THEN [r EXCEPT !.ev = <<r.ev[1], 13>>] ELSE r
RdNextNb(d, items, i) ==
  LET r == RdNext(d, items, i) IN IF r.ev[2] = 9 /\ r.ev[3] = 1 THEN [r EXCEPT !.ev = <<r.ev[1], 13>>] ELSE r

NbMap(r) == IF r.ev[2] = 9 /\ r.ev[3] = 1 THEN [r EXCEPT !.ev = <<r.ev[1], 13>>] ELSE r
NextMap(r) == IF r.ev[2] = 9 /\ r.ev[3] = 0 /\ r.ev[4] = 0 THEN [r EXCEPT !.ev = <<r.ev[1], 10>>] ELSE r
CallS(src, api, d, items, i) ==
  CASE api = 0 -> NextMap(RdReadS(src, d, items, i))
    [] api = 1 -> RdReadS(src, d, items, i)
    [] api = 2 -> NbMap(NextMap(RdReadS(src, d, items, i)))
    [] OTHER   -> NbMap(RdReadS(src, d, items, i))

Call(api, d, items, i) ==
  CASE api = 0 -> RdNext(d, items, i)
    [] api = 1 -> RdRead(d, items, i)
    [] api = 2 -> RdNextNb(d, items, i)
    [] OTHER   -> RdReadNb(d, items, i)

\* n calls of one api from a new reader
RECURSIVE Calls(_, _, _, _, _, _)
Calls(api, d, items, i, n, acc) ==
  IF n = 0 THEN acc
  ELSE LET r == Call(api, d, items, i) IN Calls(api, r.d, items, r.i, n - 1, Append(acc, r.ev))
ReaderRun(api, cap, items, n) == Calls(api, InitDec(cap), items, 1, n, <<>>)

(***************************************************************************)
(* The whole-stream front-ends: decode() = push loop + finalize;           *)
(* DecodeIterator::next = loop, finalize once at the end, then None.       *)
(***************************************************************************)
DecodeAll(cap, s) ==
  LET r == Run(InitDec(cap), s)
      evs == [k \in 1..Len(r.evs) |-> EvOfOut(r.evs[k][1], r.evs[k][2])]
      f == FinalizeOut(r.d)
  IN IF f.k = "disc" THEN Append(evs, <<Len(s), 2, f.n>>) ELSE evs

(***************************************************************************)
(* DecodeIterator::next (decode.rs:500-523): state [d, i, done]; pull bytes *)
(* until a result; when the input is exhausted call finalize once, set     *)
(* `done`, and return None ever after.  IterObs collects the results of    *)
(* repeated calls until `extra` Nones were seen (event kind 10).           *)
(***************************************************************************)
RECURSIVE ItNext(_, _, _, _)
ItNext(d, s, i, done) ==
  IF done THEN [d |-> d, i |-> i, done |-> TRUE, ev |-> <<i - 1, 10>>]
  ELSE IF i > Len(s)
  THEN LET f == FinalizeOut(d) IN
       [d |-> ResetD(d), i |-> i, done |-> TRUE,
        ev |-> IF f.k = "disc" THEN <<i - 1, 2, f.n>> ELSE <<i - 1, 10>>]
  ELSE LET r == Step(d, s[i]) IN
       IF r.out.k = "none" THEN ItNext(r.d, s, i + 1, FALSE)
       ELSE [d |-> r.d, i |-> i + 1, done |-> FALSE, ev |-> EvOfOut(i, r.out)]

IterObs(cap, s, extra) ==
  LET RECURSIVE Go(_, _, _, _, _, _)
      Go(d, i, done, acc, nones, fuel) ==
        IF nones > extra \/ fuel = 0 THEN acc
        ELSE LET r == ItNext(d, s, i, done) IN
             Go(r.d, r.i, r.done, Append(acc, r.ev), IF r.ev[2] = 10 THEN nones + 1 ELSE nones, fuel - 1)
  IN Go(InitDec(cap), 1, FALSE, <<>>, 0, Len(s) + 8)

\* C15 at the level of the specification: the four driving loops agree modulo Events.Norm
PushObs(cap, s) ==
  LET r == Run(InitDec(cap), s)
      evs == [k \in 1..Len(r.evs) |-> EvOfOut(r.evs[k][1], r.evs[k][2])]
      f == FinalizeOut(r.d)
  IN Append(evs, <<Len(s), 6, IF f.k = "disc" THEN f.n ELSE 0, IF f.k = "disc" THEN 1 ELSE 0>>)
ReaderObs(cap, s) ==
  LET RECURSIVE Go(_, _, _, _)
      Go(d, i, acc, fuel) ==
        IF fuel = 0 THEN acc
        ELSE LET r == RdNext(d, s, i) IN
             IF r.ev[2] = 10 THEN Append(acc, r.ev) ELSE Go(r.d, r.i, Append(acc, r.ev), fuel - 1)
  IN Go(InitDec(cap), 1, <<>>, Len(s) + 4)

FrontEndsAgree(cap, s) ==
  LET p == Norm(1, PushObs(cap, s)) w == Norm(2, DecodeAll(cap, s)) r == Norm(4, ReaderObs(cap, s))
      it == Norm(3, IterObs(cap, s, 2)) IN
  /\ p.wf /\ w.wf /\ r.wf /\ it.wf
  /\ ResNoPos(p) = ResNoPos(w) /\ ResNoPos(p) = ResNoPos(r) /\ ResNoPos(p) = ResNoPos(it)
  /\ p.left = w.left /\ p.left = r.left /\ p.left = it.left
  /\ ResPos(p) = ResPos(r) /\ ResPos(p) = ResPos(it)
=============================================================================
