---- MODULE J_C13 ----
EXTENDS Bytes, Json, IOUtils, TLC
(* C13: finitely many items (at most |x|+1), at most one error and it is the last item, then None forever. *)
Mon(r) == /\ r.hit = 0 /\ r.items <= r.n + 1 /\ r.after = 0
          /\ (r.errs = <<>> \/ r.errs = <<r.items>>)

\* ---- batch judge loop (generated boilerplate, see bin/vf) ---------------
Recs == ndJsonDeserialize(IOEnv.VF_TRACE)
NR == Len(Recs)
CH == 64
VARIABLES ch, i
jvars == <<ch, i>>
JInit == ch \in 1..CH /\ i = ch
JStep == /\ i <= NR
         /\ IF Mon(Recs[i]) THEN TRUE ELSE PrintT(<<"REJECT", i>>)
         /\ i' = i + CH /\ UNCHANGED ch
JSpec == JInit /\ [][JStep]_jvars
=============================================================================
