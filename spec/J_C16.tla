---- MODULE J_C16 ----
EXTENDS Frame, Events, Json, IOUtils, TLC
(* C16: capacity |m| suffices; below it out-of-memory is reported, never a payload, and the next frame is delivered. *)
ClassOf(fe) == IF fe \in {2, 16} THEN 1 ELSE IF fe = 5 THEN 3 ELSE 4
NoLookAlike(m) == \A j \in 1..Len(m) : m[j] \in {27, 0, 85}
Mon(r) ==
  LET n  == Norm(ClassOf(r.fe), r.e)
      G  == Len(r.g)                          \* noise bytes (not containing 0x1b) in front of the first frame
      L1 == G + FrameLen(r.m)
      T  == L1 + FrameLen(r.f)
      R0 == n.res
      R  == IF G > 0 /\ R0 # <<>> /\ R0[1] = EvDisc(G + 8, G) THEN Drop(R0, 1) ELSE R0
  IN /\ n.wf /\ n.left = 0
     /\ (G > 0 => R0 # <<>> /\ R0[1] = EvDisc(G + 8, G))
     /\ IF r.cap >= Len(r.m)
        THEN R = <<EvOk(L1, r.m), EvOk(T, r.f)>>
        ELSE /\ \E k \in 1..Len(R) : EvKind(R[k]) = 3 /\ EvPos(R[k]) > G + 8 /\ EvPos(R[k]) <= L1
             /\ \A k \in 1..Len(R) : EvKind(R[k]) = 1 => EvPos(R[k]) > L1
             /\ R # <<>> /\ Last(R) = EvOk(T, r.f)
             /\ (NoLookAlike(r.m) =>
                   /\ EvKind(R[1]) = 3
                   /\ IF EvPos(R[1]) = L1 THEN Len(R) = 2
                      ELSE Len(R) = 3 /\ R[2] = EvDisc(L1 + 8, L1 - EvPos(R[1])))

\* ---- batch judge loop (generated boilerplate, see bin/vf) ---------------
Recs == ndJsonDeserialize(IOEnv.VF_TRACE)
NR == Len(Recs)
CH == 64
VARIABLES ch, i
jvars == <<ch, i>>
JInit == ch \in 1..CH /\ i = ch
JStep == /\ i <= NR
         /\ IF Mon(Recs[i]) THEN TRUE ELSE PrintT(<<"REJECT", i>>)
         /\ i' = i + CH /\ UNCHANGED ch
JSpec == JInit /\ [][JStep]_jvars
=============================================================================
