---- MODULE J_C01 ----
EXTENDS Frame, Events, Json, IOUtils, TLC
(* C01: the frame from either encoder, through any front-end, yields exactly ok(p) at its last byte. *)
ObsOk(o, p, L) ==
  LET n == Norm(o.c, o.e) IN
  /\ n.wf /\ n.left = 0 /\ Len(n.res) = 1
  /\ NoPos(n.res[1]) = <<1>> \o p
  /\ EvPos(n.res[1]) \in {L, -1}
Mon(r) == /\ r.kind = 0
          /\ Len(r.obs) >= 1
          /\ \A k \in 1..Len(r.obs) : ObsOk(r.obs[k], r.p, Len(r.frame))

\* ---- batch judge loop (generated boilerplate, see bin/vf) ---------------
Recs == ndJsonDeserialize(IOEnv.VF_TRACE)
NR == Len(Recs)
CH == 64
VARIABLES ch, i
jvars == <<ch, i>>
JInit == ch \in 1..CH /\ i = ch
JStep == /\ i <= NR
         /\ IF Mon(Recs[i]) THEN TRUE ELSE PrintT(<<"REJECT", i>>)
         /\ i' = i + CH /\ UNCHANGED ch
JSpec == JInit /\ [][JStep]_jvars
=============================================================================
