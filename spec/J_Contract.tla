---- MODULE J_Contract ----
EXTENDS Contract, Json, IOUtils, TLC
(***************************************************************************)
(* Trace validation of the real push decoder against the user-level        *)
(* contract (Contract.tla, non-strict form: exactly what C01 C02 C08 C14   *)
(* C16 C17 say together): each recorded trace {ops, e} (ops: bytes, 256    *)
(* finalize, 257 reset; e: the events Decoder<Vec<u8>> returned) must be a *)
(* behaviour the contract accepts - reports tile the stream, payloads are  *)
(* reported only for their canonical frame, and every canonical frame that *)
(* starts at a boundary (and the noise before the first start sequence     *)
(* after an idle boundary) IS reported.                                    *)
(* Records of the reader front-ends (field fe) and run-length records are  *)
(* left to J_C17; traces longer than 600 operations are skipped (TLC's     *)
(* recursion depth).                                                       *)
(***************************************************************************)
Out(e) ==
  CASE e[2] = 1 -> [k |-> "ok", m |-> SubSeq(e, 3, Len(e))]
    [] e[2] = 2 /\ Len(e) = 3 -> [k |-> "disc", n |-> e[3]]
    [] e[2] = 3 -> [k |-> "oom"]
    [] e[2] = 4 -> [k |-> "invmsg"]
    [] e[2] = 5 -> [k |-> "invesc"]
    [] e[2] = 6 /\ Len(e) = 4 -> [k |-> "fin", n |-> e[3], some |-> (e[4] = 1)]
    [] e[2] = 7 /\ Len(e) = 3 -> [k |-> "rst", n |-> e[3]]
    [] OTHER -> [k |-> "bad"]
Conv(es) == [x \in 1..Len(es) |-> <<es[x][1], Out(es[x])>>]

\* index of the first finalize / reset report at or after j (0: none)
RECURSIVE CallAt(_, _)
CallAt(e, j) == IF j > Len(e) THEN 0 ELSE IF e[j][2] \in {6, 7} THEN j ELSE CallAt(e, j + 1)

RECURSIVE Walk(_, _, _, _, _, _)
Walk(ops, k, in, e, j, c) ==
  IF k > Len(ops) THEN ContractStepS(in, Conv(SubSeq(e, j, Len(e))), c, 1073741824, FALSE).ok
  ELSE IF ops[k] < 256 THEN Walk(ops, k + 1, Append(in, ops[k]), e, j, c)
  ELSE LET jj == CallAt(e, j) IN
       /\ jj # 0 /\ e[jj][2] = (IF ops[k] = 256 THEN 6 ELSE 7)
       /\ LET c1 == ContractStepS(in, Conv(SubSeq(e, j, jj)), c, 1073741824, FALSE) IN
          c1.ok /\ Walk(ops, k + 1, in, e, jj + 1, c1)

Applies(r) == "ops" \in DOMAIN r /\ ~("fe" \in DOMAIN r) /\ Len(r.ops) <= 600
Mon(r) == Applies(r) => Walk(r.ops, 1, <<>>, r.e, 1, CInit0)

\* ---- batch judge loop (generated boilerplate, see bin/vf) ---------------
Recs == ndJsonDeserialize(IOEnv.VF_TRACE)
NR == Len(Recs)
CH == 64
VARIABLES ch, i
jvars == <<ch, i>>
JInit == ch \in 1..CH /\ i = ch
JStep == /\ i <= NR
         /\ IF Mon(Recs[i]) THEN TRUE ELSE PrintT(<<"REJECT", i>>)
         /\ i' = i + CH /\ UNCHANGED ch
JSpec == JInit /\ [][JStep]_jvars
=============================================================================
