SPECIFICATION JSpec
CHECK_DEADLOCK FALSE
