---------------------------- MODULE StreamParser ----------------------------
(***************************************************************************)
(* The event-stream parser of sml-rs (src/parser/streaming.rs:17-98) as a  *)
(* pure step function over an explicit state record, built on the field    *)
(* parsers of SmlGrammar.                                                  *)
(*   s.i     index of the next unparsed byte (input = x[i..])              *)
(*   s.i0    index of the first byte of the current message (CRC range)    *)
(*   s.pend  pending_list_entries as a U32 pair plus an overflow flag:     *)
(*           0 expect message start, 1 expect crc + end marker,            *)
(*           2 expect list trailer, k > 2: k - 2 entries left              *)
(* Events (the JSON shape of harness/src/ps.rs):                           *)
(*   <<1, tid, group, abort, body>>  body as in SmlGrammar for open/close, *)
(*        <<7, client?, server, name?, time?, <<hi, lo>>>> for a list start*)
(*   <<2, entry>>   <<3, signature?, time?>>   <<0, kind, sub>> error      *)
(* PendingOnError ("clear" as repaired / "keep" as found, defect D6) and   *)
(* PendingWidth (64 as repaired / 32 as found, defect D4) select the       *)
(* behaviour of the pinned commit.                                         *)
(* Operator module (no VARIABLES).                                         *)
(***************************************************************************)
EXTENDS SmlGrammar

CONSTANTS PendingOnError,   \* "clear" | "keep"
          PendingWidth      \* 64 | 32

SInit == [i |-> 1, i0 |-> 1, pend |-> U32(0, 0), ovf |-> FALSE]

NoneItem == <<-1>>
ErrItem(r) == <<0, r.err, r.sub>>

\* num_vals + 2 in the width of the countdown
PlusTwo(u) ==
  LET lo == u.lo + 2
      hi == u.hi + (lo \div 65536)
  IN IF PendingWidth = 64 \/ hi < 65536
     THEN [v |-> U32(hi, lo % 65536), ovf |-> FALSE, big |-> hi >= 65536]
     ELSE [v |-> U32(hi % 65536, lo % 65536), ovf |-> TRUE, big |-> FALSE]   \* wrapped (release) / panic (debug)

Fail(s, x, r) ==
  [s |-> [s EXCEPT !.i = Len(x) + 1,
                   !.pend = IF PendingOnError = "clear" THEN U32(0, 0) ELSE @],
   item |-> ErrItem(r)]

\* message start: envelope, then the whole body (open / close) or the list head
MsgStart(s, x) ==
  LET e == PEnvelope(x, s.i) IN
  IF ~e.ok THEN Fail(s, x, e)
  ELSE IF e.v.tag = TagOpen
  THEN LET r == PStruct(x, e.i, 6, OpenSchema) IN
       IF ~r.ok THEN Fail(s, x, r)
       ELSE [s |-> [s EXCEPT !.i = r.i, !.i0 = s.i, !.pend = U32(0, 1)],
             item |-> <<1, e.v.tid, e.v.group, e.v.abort, <<1>> \o r.v>>]
  ELSE IF e.v.tag = TagClose
  THEN LET r == PStruct(x, e.i, 1, CloseSchema) IN
       IF ~r.ok THEN Fail(s, x, r)
       ELSE [s |-> [s EXCEPT !.i = r.i, !.i0 = s.i, !.pend = U32(0, 1)],
             item |-> <<1, e.v.tid, e.v.group, e.v.abort, <<2>> \o r.v>>]
  ELSE LET h == PListHead(x, e.i) IN
       IF ~h.ok THEN Fail(s, x, h)
       ELSE LET p == PlusTwo(h.v.count) IN
            [s |-> [s EXCEPT !.i = h.i, !.i0 = s.i, !.pend = p.v, !.ovf = @ \/ p.ovf],
             item |-> <<1, e.v.tid, e.v.group, e.v.abort,
                        <<7>> \o h.v.head \o <<<<h.v.count.hi, h.v.count.lo>>>> >>]

RECURSIVE SNext(_, _)
SNext(s, x) ==
  IF s.i > Len(x) /\ s.pend = U32(0, 0) THEN [s |-> s, item |-> NoneItem]
  ELSE IF s.pend = U32(0, 0) THEN MsgStart(s, x)
  ELSE IF s.pend = U32(0, 1)
  THEN LET t == PTrailer(x, s.i0, s.i) IN
       IF ~t.ok THEN Fail(s, x, t)
       ELSE SNext([s EXCEPT !.i = t.i, !.pend = U32(0, 0)], x)
  ELSE IF s.pend = U32(0, 2)
  THEN LET r == PFields(x, s.i, ListTailSchema, 1, <<>>) IN
       IF ~r.ok THEN Fail(s, x, r)
       ELSE [s |-> [s EXCEPT !.i = r.i, !.pend = U32(0, 1)], item |-> <<3>> \o r.v]
  ELSE LET r == PEntry(x, s.i) IN
       IF ~r.ok THEN Fail(s, x, r)
       ELSE [s |-> [s EXCEPT !.i = r.i, !.pend = U32Sub(@, 1)], item |-> <<2, r.v>>]

\* iterate: items until the first None, at most `fuel` items
RECURSIVE SItems(_, _, _, _)
SItems(s, x, acc, fuel) ==
  IF fuel = 0 THEN [items |-> acc, s |-> s, ended |-> FALSE]
  ELSE LET r == SNext(s, x) IN
       IF r.item = NoneItem THEN [items |-> acc, s |-> r.s, ended |-> TRUE]
       ELSE SItems(r.s, x, Append(acc, r.item), fuel - 1)
StreamItems(x) == SItems(SInit, x, <<>>, Len(x) + 8)

(***************************************************************************)
(* Re-assembly of an event sequence into a file, and the event grammar     *)
(*   MsgStart(list n) . Entry^n . ListEnd . (next MsgStart | end)          *)
(***************************************************************************)
IsErrItem(e) == e[1] = 0
CountOf(b) == b[6]     \* <<hi, lo>> of a list-start body

RECURSIVE Reasm(_, _, _, _)
\* cur = <<>> (not inside a list) or <<start event, entries>>
Reasm(evs, k, msgs, cur) ==
  IF k > Len(evs) THEN [wf |-> TRUE, msgs |-> msgs, open |-> cur # <<>>, err |-> <<>>]
  ELSE LET e == evs[k] IN
    CASE e[1] = 0 -> [wf |-> k = Len(evs), msgs |-> msgs, open |-> cur # <<>>, err |-> e]
      [] e[1] = 1 ->
           IF cur # <<>> THEN [wf |-> FALSE, msgs |-> msgs, open |-> TRUE, err |-> <<>>]
           ELSE IF e[5][1] = 7 THEN Reasm(evs, k + 1, msgs, <<e, <<>>>>)
           ELSE Reasm(evs, k + 1, Append(msgs, <<e[2], e[3], e[4], e[5]>>), <<>>)
      [] e[1] = 2 ->
           IF cur = <<>> THEN [wf |-> FALSE, msgs |-> msgs, open |-> FALSE, err |-> <<>>]
           ELSE LET c == CountOf(cur[1][5]) IN
                IF c[1] = 0 /\ Len(cur[2]) >= c[2] THEN [wf |-> FALSE, msgs |-> msgs, open |-> TRUE, err |-> <<>>]
                ELSE Reasm(evs, k + 1, msgs, <<cur[1], Append(cur[2], e[2])>>)
      [] e[1] = 3 ->
           IF cur = <<>> THEN [wf |-> FALSE, msgs |-> msgs, open |-> FALSE, err |-> <<>>]
           ELSE LET st == cur[1] b == st[5] c == CountOf(b) IN
                IF ~(c[1] = 0 /\ Len(cur[2]) = c[2]) THEN [wf |-> FALSE, msgs |-> msgs, open |-> TRUE, err |-> <<>>]
                ELSE Reasm(evs, k + 1,
                           Append(msgs, <<st[2], st[3], st[4], <<7, b[2], b[3], b[4], b[5], cur[2], e[2], e[3]>>>>), <<>>)
      [] OTHER -> [wf |-> FALSE, msgs |-> msgs, open |-> cur # <<>>, err |-> <<>>]
Reassemble(evs) == Reasm(evs, 1, <<>>, <<>>)

\* C09 at the level of the specification: the event machine agrees with the file grammar
StreamAgrees(x) ==
  LET f == ParseFile(x)
      it == StreamItems(x)
      ra == Reassemble(it.items)
  IN /\ it.ended /\ ra.wf
     /\ IF f.ok THEN ra.err = <<>> /\ ~ra.open /\ ra.msgs = f.v
        ELSE ra.err = <<0, f.err, f.sub>>

\* C13 at the level of the specification
StreamTerminates(x) ==
  LET it == StreamItems(x) IN
  /\ it.ended /\ Len(it.items) <= Len(x) + 1
  /\ \A k \in 1..Len(it.items) : IsErrItem(it.items[k]) => k = Len(it.items)
  /\ SNext(it.s, x).item = NoneItem
=============================================================================
