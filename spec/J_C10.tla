---- MODULE J_C10 ----
EXTENDS StreamParser, Contract, Json, IOUtils, TLC
(* (calls: <<api, target>>, api 0 next, 1 read, 2 next_nb, 3 read_nb - on these sources the nb variants never block)
   C10: SmlReader over a transmission  g0 . Canonical(F1) . g1 ... Fk . gk  yields, call by call, the discarded-bytes
   reports for the noise and the files in order in the representation each call asks for (raw payload, parsed file
   per SmlGrammar, event stream per StreamParser), then the leftover report and end of input; and its results equal
   the hand composition of decode_streaming with the parsers.
   Noise may also contain *near-frames* (r.near[i], after r.noise[i]): complete frame-like sequences that are not the
   canonical frame of any payload (pad count 4 with four zero bytes and a matching checksum, pad count without padding,
   misaligned length, wrong checksum, invalid escape).  The monitor itself establishes that a near-frame is not a frame
   (Contract.FrameAt) and that the decoder specification answers it with exactly one error at its last byte; the reader
   must then report exactly one decode error there - never a file. *)
D == INSTANCE Decoder WITH MatcherFallback <- "kmp", DiscWidth <- 0
NearOk(nr) ==
  nr = <<>> \/ /\ Len(nr) >= 16 /\ SubSeq(nr, 1, 8) = StartSeq
               /\ ~FrameAt(nr, 0, Len(nr)).is
               /\ LET evs == D!Run(D!InitDec(D!CapInf), nr).evs IN
                  Len(evs) = 1 /\ evs[1][1] = Len(nr) /\ evs[1][2].k \in {"invmsg", "invesc"}
RECURSIVE Layout(_, _, _, _, _, _, _, _)
\* slots <<kind, pos, arg>>: kind "disc" (arg n), "err" (a near-frame ends at pos), "val" (arg file index), "eof" (arg n).
\* Between two files (and before the first / after the last): noise[i], then optionally a near-frame near[i], then
\* - only behind a near-frame - more noise post[i].  After the last of these the input may end in a cut-off
\* transmission `tail` (a start sequence and a body without 0x1b): the noise before it is reported when its start
\* sequence completes, and the end of input costs exactly Len(tail) bytes.
Layout(files, noise, near, post, tail, i, off, acc) ==
  LET g == noise[i] nr == near[i] ps == post[i]
      more == i <= Len(files) \/ Len(tail) > 0
      a1 == IF Len(g) > 0 /\ (Len(nr) > 0 \/ more) THEN Append(acc, <<"disc", off + Len(g) + 8, Len(g)>>) ELSE acc
      a2 == IF Len(nr) > 0 THEN Append(a1, <<"err", off + Len(g) + Len(nr), 0>>) ELSE a1
      o2 == off + Len(g) + Len(nr)
      a3 == IF Len(ps) > 0 /\ more THEN Append(a2, <<"disc", o2 + Len(ps) + 8, Len(ps)>>) ELSE a2
      o3 == o2 + Len(ps)
  IN IF i > Len(files)
     THEN IF Len(tail) > 0
          THEN [slots |-> Append(a3, <<"eof", o3 + Len(tail), Len(tail)>>), T |-> o3 + Len(tail)]
          ELSE LET left == IF Len(nr) = 0 THEN Len(g) ELSE Len(ps) IN
               [slots |-> IF left > 0 THEN Append(a3, <<"eof", o3, left>>) ELSE a3, T |-> o3]
     ELSE LET f == Canonical(files[i]) IN Layout(files, noise, near, post, tail, i + 1, o3 + Len(f), Append(a3, <<"val", o3 + Len(f), i>>))

TailOk(t) == t = <<>> \/ (Len(t) >= 8 /\ SubSeq(t, 1, 8) = StartSeq /\ \A k \in 9..Len(t) : t[k] # 27)

RECURSIVE Concat(_, _, _, _, _)
Concat(files, noise, near, post, i) ==
  IF i > Len(files) THEN noise[i] \o near[i] \o post[i]
  ELSE noise[i] \o near[i] \o post[i] \o Canonical(files[i]) \o Concat(files, noise, near, post, i + 1)

PosOk(p, q) == p = -1 \/ p = q
EvOk2(e, exp) == Len(e) = Len(exp) /\ PosOk(e[1], exp[1]) /\ SubSeq(e, 2, Len(e)) = SubSeq(exp, 2, Len(exp))

ValueOk(t, res, f) ==
  CASE t = 0 -> res = <<0, 1, f>>
    [] t = 1 -> LET o == ParseFile(f) IN IF o.ok THEN res = <<1, 1, o.v>> ELSE Len(res) >= 2 /\ res[1] = 1 /\ res[2] = 2
    [] OTHER -> res = <<2, 1, StreamItems(f).items>>

SlotOk(call, res, slot, files, T) ==
  LET t == call[2] IN
  /\ Len(res) >= 2 /\ res[1] = t
  /\ CASE slot[1] = "disc" -> Len(res) = 3 /\ res[2] = 0 /\ EvOk2(res[3], <<slot[2], 2, slot[3]>>)
       [] slot[1] = "err"  -> Len(res) = 3 /\ res[2] = 0 /\ Len(res[3]) >= 2 /\ PosOk(res[3][1], slot[2]) /\ res[3][2] \in {4, 5}
       [] slot[1] = "val"  -> ValueOk(t, res, files[slot[3]])
       [] slot[1] = "eof"  -> Len(res) = 3 /\ res[2] = 0 /\ EvOk2(res[3], <<T, 9, 0, slot[3]>>)
       [] OTHER -> \* past the end: next -> None, read -> end-of-file error with count 0
            IF call[1] \in {0, 2} THEN Len(res) = 3 /\ res[2] = 10 /\ PosOk(res[3], T)     \* next / next_nb
            ELSE Len(res) = 3 /\ res[2] = 0 /\ EvOk2(res[3], <<T, 9, 0, 0>>)

StripPos(res) == IF Len(res) = 3 /\ res[2] = 0 THEN <<res[1], 0, SubSeq(res[3], 2, Len(res[3]))>>
                 ELSE IF Len(res) = 3 /\ res[2] = 10 THEN <<res[1], 10>> ELSE res

Mon(r) ==
  LET lay == Layout(r.files, r.noise, r.near, r.post, r.tail, 1, 0, <<>>) IN
  /\ TailOk(r.tail)
  /\ Len(r.noise) = Len(r.files) + 1 /\ Len(r.near) = Len(r.noise) /\ Len(r.post) = Len(r.noise)
  /\ \A x \in 1..Len(r.near) : NearOk(r.near[x]) /\ (r.near[x] = <<>> => r.post[x] = <<>>)
  /\ r.stream = Concat(r.files, r.noise, r.near, r.post, 1) \o r.tail
  /\ Len(r.res) = Len(r.calls) /\ Len(r.hand) = Len(r.calls)
  /\ Len(r.calls) >= Len(lay.slots) + 1                       \* at least one call past the end
  /\ \A j \in 1..Len(r.calls) :
       /\ SlotOk(r.calls[j], r.res[j], IF j <= Len(lay.slots) THEN lay.slots[j] ELSE <<"end">>, r.files, lay.T)
       /\ StripPos(r.res[j]) = StripPos(r.hand[j])

\* ---- batch judge loop (generated boilerplate, see bin/vf) ---------------
Recs == ndJsonDeserialize(IOEnv.VF_TRACE)
NR == Len(Recs)
CH == 64
VARIABLES ch, i
jvars == <<ch, i>>
JInit == ch \in 1..CH /\ i = ch
JStep == /\ i <= NR
         /\ IF Mon(Recs[i]) THEN TRUE ELSE PrintT(<<"REJECT", i>>)
         /\ i' = i + CH /\ UNCHANGED ch
JSpec == JInit /\ [][JStep]_jvars
=============================================================================
