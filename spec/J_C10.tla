---- MODULE J_C10 ----
EXTENDS StreamParser, Frame, Json, IOUtils, TLC
(* (calls: <<api, target>>, api 0 next, 1 read, 2 next_nb, 3 read_nb - on these sources the nb variants never block)
   C10: SmlReader over a transmission  g0 . Canonical(F1) . g1 ... Fk . gk  yields, call by call, the discarded-bytes
   reports for the noise and the files in order in the representation each call asks for (raw payload, parsed file
   per SmlGrammar, event stream per StreamParser), then the leftover report and end of input; and its results equal
   the hand composition of decode_streaming with the parsers. *)
RECURSIVE Layout(_, _, _, _, _)
\* slots <<kind, pos, arg>>: kind "disc" (arg n), "val" (arg file index), "eof" (arg n)
Layout(files, noise, i, off, acc) ==
  IF i > Len(files)
  THEN LET g == noise[i] IN [slots |-> IF Len(g) > 0 THEN Append(acc, <<"eof", off + Len(g), Len(g)>>) ELSE acc, T |-> off + Len(g)]
  ELSE LET g == noise[i] f == Canonical(files[i])
           a1 == IF Len(g) > 0 THEN Append(acc, <<"disc", off + Len(g) + 8, Len(g)>>) ELSE acc
       IN Layout(files, noise, i + 1, off + Len(g) + Len(f), Append(a1, <<"val", off + Len(g) + Len(f), i>>))

RECURSIVE Concat(_, _, _)
Concat(files, noise, i) ==
  IF i > Len(files) THEN noise[i] ELSE noise[i] \o Canonical(files[i]) \o Concat(files, noise, i + 1)

PosOk(p, q) == p = -1 \/ p = q
EvOk2(e, exp) == Len(e) = Len(exp) /\ PosOk(e[1], exp[1]) /\ SubSeq(e, 2, Len(e)) = SubSeq(exp, 2, Len(exp))

ValueOk(t, res, f) ==
  CASE t = 0 -> res = <<0, 1, f>>
    [] t = 1 -> LET o == ParseFile(f) IN IF o.ok THEN res = <<1, 1, o.v>> ELSE Len(res) >= 2 /\ res[1] = 1 /\ res[2] = 2
    [] OTHER -> res = <<2, 1, StreamItems(f).items>>

SlotOk(call, res, slot, files, T) ==
  LET t == call[2] IN
  /\ Len(res) >= 2 /\ res[1] = t
  /\ CASE slot[1] = "disc" -> Len(res) = 3 /\ res[2] = 0 /\ EvOk2(res[3], <<slot[2], 2, slot[3]>>)
       [] slot[1] = "val"  -> ValueOk(t, res, files[slot[3]])
       [] slot[1] = "eof"  -> Len(res) = 3 /\ res[2] = 0 /\ EvOk2(res[3], <<T, 9, 0, slot[3]>>)
       [] OTHER -> \* past the end: next -> None, read -> end-of-file error with count 0
            IF call[1] \in {0, 2} THEN Len(res) = 3 /\ res[2] = 10 /\ PosOk(res[3], T)     \* next / next_nb
            ELSE Len(res) = 3 /\ res[2] = 0 /\ EvOk2(res[3], <<T, 9, 0, 0>>)

StripPos(res) == IF Len(res) = 3 /\ res[2] = 0 THEN <<res[1], 0, SubSeq(res[3], 2, Len(res[3]))>>
                 ELSE IF Len(res) = 3 /\ res[2] = 10 THEN <<res[1], 10>> ELSE res

Mon(r) ==
  LET lay == Layout(r.files, r.noise, 1, 0, <<>>) IN
  /\ Len(r.noise) = Len(r.files) + 1
  /\ r.stream = Concat(r.files, r.noise, 1)
  /\ Len(r.res) = Len(r.calls) /\ Len(r.hand) = Len(r.calls)
  /\ Len(r.calls) >= Len(lay.slots) + 1                       \* at least one call past the end
  /\ \A j \in 1..Len(r.calls) :
       /\ SlotOk(r.calls[j], r.res[j], IF j <= Len(lay.slots) THEN lay.slots[j] ELSE <<"end">>, r.files, lay.T)
       /\ StripPos(r.res[j]) = StripPos(r.hand[j])

\* ---- batch judge loop (generated boilerplate, see bin/vf) ---------------
Recs == ndJsonDeserialize(IOEnv.VF_TRACE)
NR == Len(Recs)
CH == 64
VARIABLES ch, i
jvars == <<ch, i>>
JInit == ch \in 1..CH /\ i = ch
JStep == /\ i <= NR
         /\ IF Mon(Recs[i]) THEN TRUE ELSE PrintT(<<"REJECT", i>>)
         /\ i' = i + CH /\ UNCHANGED ch
JSpec == JInit /\ [][JStep]_jvars
=============================================================================
