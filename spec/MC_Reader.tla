----------------------------- MODULE MC_Reader -----------------------------
(***************************************************************************)
(* Fault schedules against the specification's reader (C11, C10's end of   *)
(* input rule) and agreement of the front-end loops (C15).                 *)
(* A schedule is built token by token: the bytes of the base stream in     *)
(* order, with a fault (would-block, interrupted, other) allowed before    *)
(* any byte and at the end, at most MaxFaults of them, and the stream may  *)
(* be cut (end of input) at any point.  When the schedule is complete the  *)
(* reader is run on it with each API and the clauses of FaultRule are      *)
(* evaluated on the results.                                               *)
(***************************************************************************)
EXTENDS Reader, FaultRule, TLC

CONSTANTS BaseId, MaxFaults, Cap, SrcKind    \* SrcKind: "io" (std::io::Read) | "eh" (embedded-hal 0.2 serial)

Bases == <<
  <<170>> \o Canonical(<<18, 27, 0, 0>>) \o Canonical(<<>>),                       \* noise, frame with withheld zeros, empty frame
  Canonical(<<27, 27, 27, 27, 27>>) \o <<85>> \o Take(Canonical(<<1, 2, 3>>), 13), \* literal escape + re-alignment, noise, cut frame
  [Canonical(<<51>>) EXCEPT ![20] = 0] \o <<27, 27>> \o Canonical(<<0>>)           \* bad checksum, partial start sequence, frame
>>
Base == Bases[BaseId]

VARIABLES items,   \* schedule built so far
          nb,      \* bytes of Base already placed
          nf,      \* faults placed
          done     \* schedule complete (cut or exhausted)

vars == <<items, nb, nf, done>>

Init == items = <<>> /\ nb = 0 /\ nf = 0 /\ done = FALSE
PutByte  == ~done /\ nb < Len(Base) /\ items' = Append(items, Base[nb + 1]) /\ nb' = nb + 1 /\ UNCHANGED <<nf, done>>
PutFault == ~done /\ nf < MaxFaults /\ \E f \in {WB, INT, OTH} : items' = Append(items, f) /\ nf' = nf + 1 /\ UNCHANGED <<nb, done>>
Cut      == ~done /\ done' = TRUE /\ UNCHANGED <<items, nb, nf>>
Next == PutByte \/ PutFault \/ Cut
Spec == Init /\ [][Next]_vars

\* results of repeated calls until the end of input was signalled three times in a row
RunOn(api, its) ==
  LET RECURSIVE U(_, _, _, _, _)
      U(d, i, acc, ends, fuel) ==
        IF ends = (IF SrcKind = "eh" THEN 2 ELSE 3) \/ fuel = 0 THEN acc
        ELSE LET r == CallS(SrcKind, api, d, its, i)
                 e == IF SrcKind = "eh" THEN r.x                                       \* answered by the exhausted source
                      ELSE IsNone(r.ev) \/ (api \in {1, 3} /\ IsEofRes(r.ev))
             IN U(r.d, r.i, Append(acc, r.ev), IF e THEN ends + 1 ELSE (IF SrcKind = "eh" THEN ends ELSE 0), fuel - 1)
  IN U(InitDec(Cap), 1, <<>>, 0, Len(its) + 12)
\* (for "eh" the run stops after the exhausted source has answered would-block twice, for "io" after three
\* consecutive end-of-input signals)
Ends == IF SrcKind = "eh" THEN 2 ELSE 3

BytesOnly(its) == SelectSeq(its, LAMBDA x : x < 256)
AfterFirstOth(its) ==
  LET io == FirstIdx(its, LAMBDA x : x = 302) IN IF io = 0 THEN <<>> ELSE Drop(its, io)

NoInt(its) == SelectSeq(its, LAMBDA x : x # 301)
ClausesFor(api) ==
  IF SrcKind = "eh"
  THEN FaultClausesEh(NoInt(items), api, RunOn(api, NoInt(items)), RunOn(api, BytesOnly(items)), RunOn(api, AfterFirstOth(NoInt(items))))
  ELSE FaultClauses(items, api, RunOn(api, items), RunOn(api, BytesOnly(items)), RunOn(api, AfterFirstOth(items)))

\* C11 on the specification
FaultsOK == done => \A api \in 0..3 : ClausesFor(api)
\* C15 on the specification: the driving loops agree on the bytes of every schedule
LoopsAgree == done => FrontEndsAgree(Cap, BytesOnly(items))
=============================================================================
