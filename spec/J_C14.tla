---- MODULE J_C14 ----
EXTENDS Bytes, Json, IOUtils, TLC
(* C14: the continuing decoder and a new decoder report the same events on the same continuation. *)
Mon(r) == r.cont = r.fresh

\* ---- batch judge loop (generated boilerplate, see bin/vf) ---------------
Recs == ndJsonDeserialize(IOEnv.VF_TRACE)
NR == Len(Recs)
CH == 64
VARIABLES ch, i
jvars == <<ch, i>>
JInit == ch \in 1..CH /\ i = ch
JStep == /\ i <= NR
         /\ IF Mon(Recs[i]) THEN TRUE ELSE PrintT(<<"REJECT", i>>)
         /\ i' = i + CH /\ UNCHANGED ch
JSpec == JInit /\ [][JStep]_jvars
=============================================================================
