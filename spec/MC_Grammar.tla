----------------------------- MODULE MC_Grammar -----------------------------
(***************************************************************************)
(* The two readings of the SML grammar against each other, and the event   *)
(* machine against the file grammar:                                       *)
(*  phase "gen":  x = Encode(F, c) for every abstract file F of the family *)
(*                and every combination of encoding choices c;             *)
(*                RoundTrip: ParseFile(x) = F (C03 at the level of the     *)
(*                specification), StreamAgrees, StreamTerminates.          *)
(*  phase "mut":  every single-byte substitution from SubstBytes at every  *)
(*                position, every truncation and two extensions of x (for  *)
(*                the default choices), each with and without recomputed   *)
(*                message checksums; StreamAgrees (C09), StreamTerminates  *)
(*                (C13) and totality (C06) on the corrupted input.         *)
(* EmitJson prints every generated (x, F) pair for replay into the real    *)
(* parsers (binding B of C03).                                             *)
(***************************************************************************)
EXTENDS StreamParser, SmlEncode, TLC, Json

CONSTANTS EmitJson, MutateAll

\* ---- the family of abstract files ------------------------------------------
T1 == <<0, 1, 226, 64>>
T2 == <<128, 0, 0, 1>>
Close(sig) == <<2, sig>>
Msg(tid, g, a, body) == <<tid, g, a, body>>
E(name, st, tm, unit, sc, val, sig) == <<name, st, tm, unit, sc, val, sig>>

Entries == <<
  E(<<1, 0, 1, 8, 0, 255>>, <<<<8, <<130>>>>>>, <<T1>>, <<30>>, <<-1>>, <<0, 1>>, <<<<9, 9>>>>),
  E(<<>>, <<<<16, <<1, 130>>>>>>, <<>>, <<>>, <<>>, <<1, <<72, 76, 89>>>>, <<>>),
  E(<<1>>, <<<<32, <<0, 1, 2, 3>>>>>>, <<>>, <<255>>, <<127>>, <<2, 8, <<128>>>>, <<>>),
  E(<<2>>, <<<<64, <<0, 0, 0, 0, 0, 1, 2, 3>>>>>>, <<>>, <<>>, <<-128>>, <<2, 64, <<255, 255, 255, 255, 255, 255, 255, 1>>>>, <<>>),
  E(<<3>>, <<>>, <<T2>>, <<>>, <<>>, <<3, 16, <<255, 254>>>>, <<>>),
  E(<<4>>, <<>>, <<>>, <<>>, <<0>>, <<4, T1>>, <<<<>>>>),
  E(<<5>>, <<>>, <<>>, <<>>, <<>>, <<2, 32, <<0, 0, 128, 0>>>>, <<>>),
  E(<<6>>, <<>>, <<>>, <<>>, <<>>, <<3, 64, <<1, 2, 3, 4, 5, 6, 7, 8>>>>, <<>>),
  E(<<7>>, <<>>, <<>>, <<>>, <<>>, <<0, 0>>, <<>>),
  E(<<8>>, <<>>, <<>>, <<>>, <<>>, <<2, 16, <<255, 127>>>>, <<>>),
  E(<<9>>, <<>>, <<>>, <<>>, <<>>, <<3, 32, <<0, 255, 0, 1>>>>, <<>>),
  E(<<10>>, <<>>, <<>>, <<>>, <<>>, <<1, <<>>>>, <<>>),
  E(<<11>>, <<>>, <<>>, <<>>, <<>>, <<3, 8, <<0>>>>, <<>>),
  E(<<12>>, <<>>, <<>>, <<>>, <<>>, <<2, 32, <<255, 255, 0, 0>>>>, <<>>),
  E(<<13>>, <<>>, <<>>, <<>>, <<>>, <<2, 64, <<0, 0, 0, 0, 128, 0, 0, 0>>>>, <<>>),
  E(<<14>>, <<>>, <<>>, <<>>, <<>>, <<1, <<1, 2, 3, 4, 5, 6, 7, 8, 9, 10, 11, 12, 13, 14, 15, 16>>>>, <<>>),
  E(<<15>>, <<>>, <<>>, <<>>, <<>>, <<3, 16, <<0, 1>>>>, <<>>) >>

OpenMin  == <<1, <<>>, <<>>, <<7>>, <<8, 9>>, <<>>, <<>>>>
OpenFull == <<1, <<<<67, 80>>>>, <<<<1, 2, 3>>>>, <<10, 11>>, <<>>, <<T1>>, <<1>>>>
ListOf(n, sig, gt) == <<7, <<<<5, 5>>>>, <<170, 187>>, <<>>, <<T2>>, SubSeq(Entries, 1, n), sig, gt>>
ListMin == <<7, <<>>, <<>>, <<>>, <<>>, <<>>, <<>>, <<>>>>

Files == <<
  <<>>,
  <<Msg(<<221, 67, 68, 0>>, 0, 0, Close(<<>>))>>,
  <<Msg(<<1>>, 0, 0, OpenFull), Msg(<<2>>, 1, 255, Close(<<<<1, 2, 3, 4>>>>))>>,
  <<Msg(<<1>>, 0, 0, OpenMin), Msg(<<2>>, 0, 0, ListOf(4, <<>>, <<>>)), Msg(<<3>>, 0, 0, Close(<<>>))>>,
  <<Msg(<<>>, 0, 0, ListOf(10, <<<<7, 7>>>>, <<T1>>))>>,
  <<Msg(<<4>>, 0, 0, ListOf(15, <<>>, <<>>))>>,
  <<Msg(<<5>>, 0, 0, ListOf(16, <<>>, <<>>))>>,
  <<Msg(<<6>>, 0, 0, ListOf(17, <<>>, <<>>)), Msg(<<7>>, 0, 0, ListMin)>>,
  <<Msg(<<1, 2, 3, 4, 5, 6, 7, 8, 9, 10, 11, 12, 13, 14, 15>>, 0, 0, Close(<<>>))>>,
  <<Msg(<<9>>, 0, 0, ListMin)>> >>

DefaultChoice == [extra |-> 0, intfull |-> FALSE, timebare |-> FALSE, where |-> "all"]
SubstBytes == {0, 1, 127, 128, 255, 98, 114, 119, 82, 66, 101, 118}

VARIABLES phase, fi, c, x
vars == <<phase, fi, c, x>>

\* (the initial state is trivial on purpose: TLC evaluates initial states and their invariants on its main thread,
\* whose stack is not governed by -Xss; the deep recursive parses happen in worker threads)
Init == phase = "init" /\ fi = 1 /\ c = DefaultChoice /\ x = <<>>
Gen == /\ phase = "init" /\ phase' = "gen"
       /\ \E f \in 1..Len(Files), ch \in Choices : fi' = f /\ c' = ch /\ x' = Encode(Files[f], ch)

\* message spans of a well-formed x: <<start, crc field start, end>> (1-based, inclusive start, exclusive end)
RECURSIVE Spans(_, _, _)
Spans(y, i, acc) ==
  IF i > Len(y) THEN acc
  ELSE LET m == PMessage(y, i) IN IF ~m.ok THEN acc ELSE Spans(y, m.i, Append(acc, <<i, m.i - 4, m.i>>))

RECURSIVE FixCrcs(_, _, _)
FixCrcs(y, spans, k) ==
  IF k > Len(spans) THEN y
  ELSE LET s == spans[k] IN
       IF s[3] - 1 > Len(y) THEN y
       ELSE LET d == Crc16(SubSeq(y, s[1], s[2] - 1))
            IN FixCrcs([y EXCEPT ![s[2] + 1] = d % 256, ![s[2] + 2] = d \div 256], spans, k + 1)

\* a TLF of the same type declaring 2^32-2 / 2^32-1
Bomb(b, last) == <<128 + 16 * ((b \div 16) % 8) + 15, 143, 143, 143, 143, 143, 143, last>>

Mutants(y) ==
  LET sp == Spans(y, 1, <<>>)
      subs == { [y EXCEPT ![i] = v] : i \in 1..Len(y), v \in SubstBytes }
  IN subs \cup { FixCrcs(z, sp, 1) : z \in subs }
     \cup { Take(y, n) : n \in 0..Len(y) } \cup { Append(y, 0), Append(y, 118) }
     \cup { Take(y, i - 1) \o Bomb(y[i], last) \o Drop(y, i) : i \in { j \in 1..Len(y) : y[j] \div 16 \in {0, 7} /\ y[j] # 0 }, last \in {14, 15} }

Mutate == /\ phase = "gen" /\ (MutateAll \/ c = DefaultChoice) /\ Len(x) <= 80
          /\ phase' = "mut" /\ x' \in Mutants(x) /\ UNCHANGED <<fi, c>>
Next == Gen \/ Mutate
Spec == Init /\ [][Next]_vars

\* ---- properties -----------------------------------------------------------
RoundTrip == phase = "gen" => LET o == ParseFile(x) IN o.ok /\ o.v = Files[fi] /\ o.i = Len(x) + 1
Agrees    == phase # "init" => StreamAgrees(x)
Terminates == phase # "init" => StreamTerminates(x)
Total     == phase # "init" => ParseFile(x).ok \in BOOLEAN /\ StreamItems(x).ended
NoCountdownOverflow == phase # "init" => ~StreamItems(x).s.ovf
Emit == (EmitJson /\ phase = "gen") => PrintT(<<"REPLAY", ToJson([x |-> x, f |-> Files[fi]])>>)
=============================================================================
