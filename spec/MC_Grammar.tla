----------------------------- MODULE MC_Grammar -----------------------------
(***************************************************************************)
(* The two readings of the SML grammar against each other, and the event   *)
(* machine against the file grammar:                                       *)
(*  phase "gen":  x = Encode(F, c) for every abstract file F of the family *)
(*                and every combination of encoding choices c;             *)
(*                RoundTrip: ParseFile(x) = F (C03 at the level of the     *)
(*                specification), StreamAgrees, StreamTerminates.          *)
(*  phase "mut":  every single-byte substitution from SubstBytes at every  *)
(*                position, every truncation and two extensions of x (for  *)
(*                the default choices), each with and without recomputed   *)
(*                message checksums; StreamAgrees (C09), StreamTerminates  *)
(*                (C13) and totality (C06) on the corrupted input.         *)
(* EmitJson prints every generated (x, F) pair for replay into the real    *)
(* parsers (binding B of C03).                                             *)
(***************************************************************************)
EXTENDS StreamParser, SmlEncode, SmlFiles, TLC, Json

CONSTANTS EmitJson, MutateAll

\* the family of abstract files lives in SmlFiles.tla (shared with MC_Link)
SubstBytes == {0, 1, 127, 128, 255, 98, 114, 119, 82, 66, 101, 118}

VARIABLES phase, fi, c, x
vars == <<phase, fi, c, x>>

\* (the initial state is trivial on purpose: TLC evaluates initial states and their invariants on its main thread,
\* whose stack is not governed by -Xss; the deep recursive parses happen in worker threads)
Init == phase = "init" /\ fi = 1 /\ c = DefaultChoice /\ x = <<>>
Gen == /\ phase = "init" /\ phase' = "gen"
       /\ \E f \in 1..Len(Files), ch \in Choices : fi' = f /\ c' = ch /\ x' = Encode(Files[f], ch)

\* message spans of a well-formed x: <<start, crc field start, end>> (1-based, inclusive start, exclusive end)
RECURSIVE Spans(_, _, _)
Spans(y, i, acc) ==
  IF i > Len(y) THEN acc
  ELSE LET m == PMessage(y, i) IN IF ~m.ok THEN acc ELSE Spans(y, m.i, Append(acc, <<i, m.i - 4, m.i>>))

RECURSIVE FixCrcs(_, _, _)
FixCrcs(y, spans, k) ==
  IF k > Len(spans) THEN y
  ELSE LET s == spans[k] IN
       IF s[3] - 1 > Len(y) THEN y
       ELSE LET d == Crc16(SubSeq(y, s[1], s[2] - 1))
            IN FixCrcs([y EXCEPT ![s[2] + 1] = d % 256, ![s[2] + 2] = d \div 256], spans, k + 1)

\* a TLF of the same type declaring 2^32-2 / 2^32-1
Bomb(b, last) == <<128 + 16 * ((b \div 16) % 8) + 15, 143, 143, 143, 143, 143, 143, last>>

Mutants(y) ==
  LET sp == Spans(y, 1, <<>>)
      subs == { [y EXCEPT ![i] = v] : i \in 1..Len(y), v \in SubstBytes }
  IN subs \cup { FixCrcs(z, sp, 1) : z \in subs }
     \cup { Take(y, n) : n \in 0..Len(y) } \cup { Append(y, 0), Append(y, 118) }
     \cup { Take(y, i - 1) \o Bomb(y[i], last) \o Drop(y, i) : i \in { j \in 1..Len(y) : y[j] \div 16 \in {0, 7} /\ y[j] # 0 }, last \in {14, 15} }

Mutate == /\ phase = "gen" /\ (MutateAll \/ c = DefaultChoice) /\ Len(x) <= 80
          /\ phase' = "mut" /\ x' \in Mutants(x) /\ UNCHANGED <<fi, c>>
Next == Gen \/ Mutate
Spec == Init /\ [][Next]_vars

\* ---- properties -----------------------------------------------------------
RoundTrip == phase = "gen" => LET o == ParseFile(x) IN o.ok /\ o.v = Files[fi] /\ o.i = Len(x) + 1
Agrees    == phase # "init" => StreamAgrees(x)
Terminates == phase # "init" => StreamTerminates(x)
Total     == phase # "init" => ParseFile(x).ok \in BOOLEAN /\ StreamItems(x).ended
NoCountdownOverflow == phase # "init" => ~StreamItems(x).s.ovf
Emit == (EmitJson /\ phase = "gen") => PrintT(<<"REPLAY", ToJson([x |-> x, f |-> Files[fi]])>>)
=============================================================================
