---- MODULE J_C08 ----
EXTENDS Decoder, Events, Json, IOUtils, TLC
(* C08: noise without a start sequence (or a frame cut where no escape is in progress) followed by a valid frame:
   the noise / the cut part is reported as discarded bytes, then the frame's payload is delivered.
   The antecedent is evaluated here, on the recorded stimulus, with the spec's own decoder. *)
RECURSIVE SpecAfter(_, _, _)
SpecAfter(d, ops, k) ==
  IF k > Len(ops) THEN d
  ELSE IF ops[k] >= 256 THEN SpecAfter(ResetD(d), ops, k + 1)
       ELSE SpecAfter(Step(d, ops[k]).d, ops, k + 1)

\* fe 1 push decoder with a growable buffer, 2 push decoder with ArrayBuf<r.cap>, 3 decode(), 7 SmlReader
End(fe, T) == IF fe \in {1, 2} THEN <<<<T, 6, 0, 0>>>> ELSE IF fe = 7 THEN <<<<T, 10>>>> ELSE <<>>
CapOf(r) == IF "cap" \in DOMAIN r THEN r.cap ELSE CapInf
P(fe, x) == IF fe = 3 THEN -1 ELSE x

NoiseApplies(r) ==
  /\ IsIdle(SpecAfter(InitDec(CapOf(r)), r.h, 1))
  /\ Len(r.m) <= CapOf(r)
  /\ Occurrences(StartSeq, r.g \o StartSeq) = {Len(r.g)}
NoiseExpected(r) ==
  LET G == Len(r.g) T == G + FrameLen(r.m) IN
  (IF G > 0 THEN <<EvDisc(P(r.fe, G + 8), G)>> ELSE <<>>) \o <<EvOk(P(r.fe, T), r.m)>> \o End(r.fe, T)

CutApplies(r) ==
  LET d == SpecAfter(InitDec(CapInf), r.pre, 1) IN d.st = "normal"
CutExpected(r) ==
  LET C == Len(r.pre) T == C + FrameLen(r.m) IN
  <<EvDisc(C + 8, C), EvOk(T, r.m)>> \o End(r.fe, T)

Mon(r) ==
  IF r.kind = 1 THEN (NoiseApplies(r) => r.e = NoiseExpected(r))
  ELSE (CutApplies(r) => r.e = CutExpected(r))
Applies(r) == IF r.kind = 1 THEN NoiseApplies(r) ELSE CutApplies(r)

\* ---- batch judge loop (generated boilerplate, see bin/vf) ---------------
Recs == ndJsonDeserialize(IOEnv.VF_TRACE)
NR == Len(Recs)
CH == 64
VARIABLES ch, i
jvars == <<ch, i>>
JInit == ch \in 1..CH /\ i = ch
JStep == /\ i <= NR
         /\ IF Mon(Recs[i]) THEN TRUE ELSE PrintT(<<"REJECT", i>>)
         /\ i' = i + CH /\ UNCHANGED ch
JSpec == JInit /\ [][JStep]_jvars
=============================================================================
