---- MODULE J_ContractC08 ----
EXTENDS ContractWalk, Json, IOUtils, TLC
(* C08 (with C01 / C14) as a whole-behaviour contract over arbitrary recorded traces: at EVERY boundary of the trace - not
   only after the stimulus shapes of the c08 family - a valid frame that begins at the boundary is delivered, and noise
   followed by a valid frame is reported as discarded bytes when the frame's start sequence completes (Contract mode "c08":
   nothing else is demanded; the reports only move the boundary). Traces with panic / malformed events are C05's matter. *)
Mon(r) == (Applies(r) /\ WellFormed(r.e)) => Walk(r.ops, 1, <<>>, r.e, 1, CInit0, "c08", CapOf(r))

\* ---- batch judge loop (generated boilerplate, see bin/vf) ---------------
Recs == ndJsonDeserialize(IOEnv.VF_TRACE)
NR == Len(Recs)
CH == 64
VARIABLES ch, i
jvars == <<ch, i>>
JInit == ch \in 1..CH /\ i = ch
JStep == /\ i <= NR
         /\ IF Mon(Recs[i]) THEN TRUE ELSE PrintT(<<"REJECT", i>>)
         /\ i' = i + CH /\ UNCHANGED ch
JSpec == JInit /\ [][JStep]_jvars
=============================================================================
