-------------------------------- MODULE Tlf --------------------------------
(***************************************************************************)
(* SML type-length fields (src/parser/tlf.rs:58-143), written from the SML *)
(* 1.04 description:                                                       *)
(*   first byte  m ttt llll    t: 000 octet string, 100 boolean,           *)
(*                                101 integer, 110 unsigned, 111 list      *)
(*   while m:  next byte  m 000 llll ;  L := L * 16 + llll                 *)
(*   L must fit 32 bits; for non-list types L counts the TLF bytes too.    *)
(* TLC integers are 32-bit signed, so the 32-bit unsigned accumulator is a *)
(* pair [hi, lo] of 16-bit halves: exact u32 arithmetic incl. wrap-around. *)
(* ShiftCheck selects the overflow test: "mul" (as repaired: checked       *)
(* multiplication) or "shl" (as found: checked_shl never fails, the value  *)
(* wraps - defect D3).                                                     *)
(* Operator module (no VARIABLES).                                         *)
(***************************************************************************)
EXTENDS Bytes

CONSTANT ShiftCheck   \* "mul" | "shl"

U32(hi, lo) == [hi |-> hi, lo |-> lo]
U32Of(n) == U32(n \div 65536, n % 65536)            \* n < 2^31
U32IsSmall(u) == u.hi = 0
U32Lt(u, n) == u.hi = 0 /\ u.lo < n                  \* n < 65536
U32Sub(u, n) ==                                      \* n <= 16, u >= n
  IF u.lo >= n THEN U32(u.hi, u.lo - n) ELSE U32(u.hi - 1, u.lo + 65536 - n)
\* (u << 4) + nib, wrapping at 2^32; ovf tells whether bits were shifted out
U32Shl4Add(u, nib) ==
  [v   |-> U32((u.hi * 16 + u.lo \div 4096) % 65536, ((u.lo * 16) % 65536) + nib),
   ovf |-> u.hi >= 4096]
\* a value usable as a count / size for inputs shorter than 65536 bytes
U32Clamp(u, max) == IF u.hi > 0 THEN max ELSE Min(u.lo, max)

TyOctet == 0
TyBool  == 4
TyInt   == 5
TyUint  == 6
TyList  == 7

TOk(i, ty, len) == [ok |-> TRUE, i |-> i, ty |-> ty, len |-> len]
TErr(k, sub)   == [ok |-> FALSE, err |-> k, sub |-> sub]

\* error kinds (ParseError) and InvalidTlf sub-kinds (TlfParseError) as ints, shared with the harness
ELeftover == 1
EEof      == 2
ETlf      == 3
EMismatch == 4
ECrc      == 5
EMsgEnd   == 6
EVariant  == 7
TOverflow  == 1
TReserved  == 2
TUnderflow == 3
TNextByte  == 4
TInvalidTy == 5

RECURSIVE TlfMore(_, _, _, _, _, _)
TlfMore(x, i, ty, more, len, n) ==
  IF ~more
  THEN IF ty = TyList THEN TOk(i, ty, len)
       ELSE IF U32Lt(len, n) THEN TErr(ETlf, TUnderflow)
       ELSE TOk(i, ty, U32Sub(len, n))
  ELSE IF i > Len(x) THEN TErr(EEof, 0)
  ELSE LET b == x[i] s == U32Shl4Add(len, b % 16) IN
       IF (b \div 16) % 8 # 0 THEN TErr(ETlf, TNextByte)
       ELSE IF ShiftCheck = "mul" /\ s.ovf THEN TErr(ETlf, TOverflow)
       ELSE TlfMore(x, i + 1, ty, b >= 128, s.v, n + 1)

\* parse the TLF starting at x[i]
TlfParse(x, i) ==
  IF i > Len(x) THEN TErr(EEof, 0)
  ELSE LET b == x[i] ty == (b \div 16) % 8 more == b >= 128 IN
       IF ty \notin {TyOctet, TyBool, TyInt, TyUint, TyList} THEN TErr(ETlf, TInvalidTy)
       ELSE IF ty = TyBool /\ more THEN TErr(ETlf, TReserved)
       ELSE TlfMore(x, i + 1, ty, more, U32(0, b % 16), 1)

(***************************************************************************)
(* The SML rule with an arbitrary-precision length (nibble sequence): the  *)
(* reference the 32-bit implementation is compared with in MC_Tlf.         *)
(***************************************************************************)
RECURSIVE StripZeros(_)
StripZeros(s) == IF s # <<>> /\ s[1] = 0 THEN StripZeros(Drop(s, 1)) ELSE s

\* nibble sequence (most significant first, no leading zeros) of a u32 pair
RECURSIVE NibblesOf(_, _)
NibblesOf(n, k) == IF k = 0 THEN <<>> ELSE Append(NibblesOf(n \div 16, k - 1), n % 16)
U32Nibbles(u) == StripZeros(NibblesOf(u.hi, 4) \o NibblesOf(u.lo, 4))

\* nibble-sequence subtraction of a small n (n <= 16) - only defined when value >= n
NibValueSmall(s) == IF Len(s) = 0 THEN 0 ELSE IF Len(s) = 1 THEN s[1] ELSE IF Len(s) = 2 THEN s[1] * 16 + s[2] ELSE 256
RECURSIVE NibSub(_, _)
NibSub(s, n) ==      \* s as big-endian nibble sequence, subtract n (0 <= n <= 16), s >= n
  IF n = 0 THEN s
  ELSE LET l == Len(s) d == s[l] IN
       IF d >= n THEN [s EXCEPT ![l] = d - n]
       ELSE [NibSub(Take(s, l - 1), 1) \o <<0>> EXCEPT ![l] = d + 16 - n]

RECURSIVE RefMore(_, _, _, _, _, _)
RefMore(x, i, ty, more, nibs, n) ==
  IF ~more
  THEN LET v == StripZeros(nibs) IN
       IF Len(v) > 8 THEN [ok |-> FALSE]
       ELSE IF ty = TyList THEN [ok |-> TRUE, i |-> i, ty |-> ty, nibs |-> v]
       ELSE IF NibValueSmall(v) < n THEN [ok |-> FALSE]
       ELSE [ok |-> TRUE, i |-> i, ty |-> ty, nibs |-> StripZeros(NibSub(v, n))]
  ELSE IF i > Len(x) THEN [ok |-> FALSE]
  ELSE LET b == x[i] IN
       IF (b \div 16) % 8 # 0 THEN [ok |-> FALSE]
       ELSE RefMore(x, i + 1, ty, b >= 128, Append(nibs, b % 16), n + 1)

TlfRef(x, i) ==
  IF i > Len(x) THEN [ok |-> FALSE]
  ELSE LET b == x[i] ty == (b \div 16) % 8 more == b >= 128 IN
       IF ty \notin {TyOctet, TyBool, TyInt, TyUint, TyList} THEN [ok |-> FALSE]
       ELSE IF ty = TyBool /\ more THEN [ok |-> FALSE]
       ELSE RefMore(x, i + 1, ty, more, <<b % 16>>, 1)

\* C12 (TLF part): the 32-bit machine agrees with the arbitrary-precision rule:
\* exact length or error, never a wrapped or truncated one.
TlfExact(x) ==
  LET a == TlfParse(x, 1) r == TlfRef(x, 1) IN
  IF r.ok THEN a.ok /\ a.i = r.i /\ a.ty = r.ty /\ U32Nibbles(a.len) = r.nibs
  ELSE ~a.ok
=============================================================================
