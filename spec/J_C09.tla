---- MODULE J_C09 ----
EXTENDS StreamParser, Json, IOUtils, TLC
(* C09: the streaming parser's events, re-assembled, equal the allocating parser's file; errors coincide in kind;
   the event grammar MsgStart(list n) . Entry^n . ListEnd holds. Impl vs impl; re-assembly is the spec's operator. *)
Mon(r) ==
  LET ra == Reassemble(r.ev) IN
  /\ r.hit = 0 /\ ra.wf
  /\ \A k \in 1..Len(r.ev) : r.ev[k][1] \in {0, 1, 2, 3}
  /\ IF r.c[1] = 1 THEN ra.err = <<>> /\ ~ra.open /\ ra.msgs = r.c[2]
     ELSE r.c[1] = 0 /\ ra.err = r.c

\* ---- batch judge loop (generated boilerplate, see bin/vf) ---------------
Recs == ndJsonDeserialize(IOEnv.VF_TRACE)
NR == Len(Recs)
CH == 64
VARIABLES ch, i
jvars == <<ch, i>>
JInit == ch \in 1..CH /\ i = ch
JStep == /\ i <= NR
         /\ IF Mon(Recs[i]) THEN TRUE ELSE PrintT(<<"REJECT", i>>)
         /\ i' = i + CH /\ UNCHANGED ch
JSpec == JInit /\ [][JStep]_jvars
=============================================================================
