SPECIFICATION JSpec
CHECK_DEADLOCK FALSE
CONSTANTS
  MatcherFallback = "kmp"
  DiscWidth = 0
  ShiftCheck = "mul"
  PendingOnError = "clear"
  PendingWidth = 64
