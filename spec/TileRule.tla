------------------------------ MODULE TileRule ------------------------------
(***************************************************************************)
(* C17 as an operator over a recorded event list: delivered frames,        *)
(* discarded-bytes reports (incl. the final one from finalize / reset /    *)
(* the count attached to an I/O error) and frames rejected with an error   *)
(* tile the input without gaps or overlaps.  bnd = offset of the last      *)
(* boundary, T = total number of bytes of the stream.                      *)
(***************************************************************************)
EXTENDS Frame, Events

RECURSIVE Tile(_, _, _, _)
Tile(evs, k, bnd, T) ==
  IF k > Len(evs) THEN bnd = T
  ELSE LET e == evs[k] pos == e[1] kind == e[2] IN
    CASE kind = 1 -> pos - FrameLen(EvArgs(e)) = bnd /\ Tile(evs, k + 1, pos, T)
      [] kind = 2 -> Len(e) = 3 /\ pos = bnd + e[3] + 8 /\ Tile(evs, k + 1, bnd + e[3], T)
      [] kind \in {3, 4, 5} -> pos > bnd /\ Tile(evs, k + 1, pos, T)
      [] kind = 6 -> Len(e) = 4 /\ e[3] = pos - bnd /\ (e[4] = 0 => e[3] = 0) /\ Tile(evs, k + 1, pos, T)
      [] kind = 7 -> Len(e) = 3 /\ e[3] = pos - bnd /\ Tile(evs, k + 1, pos, T)
      [] kind = 9 -> Len(e) = 4 /\ (IF e[3] = 1 THEN e[4] = 0 /\ Tile(evs, k + 1, bnd, T)
                                   ELSE e[4] = pos - bnd /\ Tile(evs, k + 1, pos, T))
      [] kind = 10 -> pos = bnd /\ pos = T /\ Tile(evs, k + 1, bnd, T)
      [] kind = 13 -> Tile(evs, k + 1, bnd, T)          \* nb::Error::WouldBlock
      [] OTHER -> FALSE
=============================================================================
