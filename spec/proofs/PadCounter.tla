----------------------------- MODULE PadCounter -----------------------------
(***************************************************************************)
(* Unbounded side-proof (Apalache, inductive invariant) for the iterator   *)
(* encoder's pad count (src/transport/encode.rs:5-19, 55-61, 92-99):       *)
(* `Padding` is an 8-bit counter decremented with wrap-around for every    *)
(* payload byte read; the pad count is its two low bits.  Claim: for every *)
(* number n of payload bytes - not only the bounded ones MC_Encoder visits *)
(* - the emitted pad count p satisfies (n + p) % 4 = 0 and p <= 3, i.e. it *)
(* is the Transport-v1 pad count; the wrap at 256 is harmless because 256  *)
(* is a multiple of 4.  (Escape insertions add 4 bytes each and do not     *)
(* change alignment.)                                                      *)
(*   apalache-mc check --init=IndInit --inv=IndInv --length=1 PadCounter.tla *)
(*   apalache-mc check --init=Init    --inv=IndInv --length=0 PadCounter.tla *)
(***************************************************************************)
EXTENDS Integers

VARIABLES
  \* @type: Int;
  pad,
  \* @type: Int;
  n

Init == pad = 0 /\ n = 0
Next == pad' = (pad + 255) % 256 /\ n' = n + 1       \* wrapping_sub(1) per payload byte

PadCount == pad % 4                                  \* & 0x3
IndInv == /\ pad \in 0..255 /\ n >= 0
          /\ (pad + n) % 4 = 0
          /\ PadCount <= 3 /\ (n + PadCount) % 4 = 0
IndInit == pad \in 0..255 /\ n \in Int /\ IndInv
=============================================================================
