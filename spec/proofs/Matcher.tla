------------------------------- MODULE Matcher -------------------------------
(***************************************************************************)
(* Unbounded side-proof (Apalache, inductive invariant) for the start-     *)
(* sequence matcher of the decoder as repaired (decode.rs:180-202, D2):    *)
(* after ANY sequence of noise bytes, of any length, the matched count     *)
(* `ninit` is exactly the length of the longest suffix of the bytes seen   *)
(* since the last boundary that is a prefix of 1b1b1b1b 01010101 - hence a *)
(* start sequence is never missed (C08) - and the noise counter `ndisc`    *)
(* plus `ninit` is the number of bytes since the boundary (C17).           *)
(* Bytes are abstracted to three classes: 1 = 0x1b, 2 = 0x01, 0 = other;   *)
(* only the last 7 bytes matter, they are kept in the window w (w[7] is    *)
(* the most recent; 0 stands for "other or nothing").                      *)
(* With Fallback = "drop" (the code as found) the induction step fails.    *)
(*   apalache-mc check --init=IndInit --inv=IndInv --length=1 --cinit=CInit Matcher.tla *)
(***************************************************************************)
EXTENDS Integers

CONSTANT
  \* @type: Str;
  Fallback

CInit == Fallback = "kmp"
CInitDrop == Fallback = "drop"

VARIABLES
  \* @type: Int -> Int;
  w,
  \* @type: Int;
  ninit,
  \* @type: Int;
  ndisc,
  \* @type: Int;
  total

\* the start sequence in byte classes
S == [j \in 1..8 |-> IF j <= 4 THEN 1 ELSE 2]

\* the last k bytes of the window equal the first k bytes of S
Match(k) == \A j \in 1..7 : j <= k => w[7 - k + j] = S[j]

Init == w = [j \in 1..7 |-> 0] /\ ninit = 0 /\ ndisc = 0 /\ total = 0

Step(b) ==
  LET match == (b = 1 /\ ninit < 4) \/ (b = 2 /\ ninit >= 4)
      keep  == IF Fallback = "kmp" THEN (IF b = 1 THEN (IF ninit = 4 THEN 4 ELSE 1) ELSE 0) ELSE 0
      n1    == IF match THEN ninit + 1 ELSE keep
      d1    == IF match THEN ndisc ELSE ndisc + 1 + ninit - keep
  IN IF n1 = 8
     THEN \* start sequence recognised: boundary, everything starts afresh
          /\ w' = [j \in 1..7 |-> 0] /\ ninit' = 0 /\ ndisc' = 0 /\ total' = 0
     ELSE /\ w' = [j \in 1..7 |-> IF j < 7 THEN w[j + 1] ELSE b]
          /\ ninit' = n1 /\ ndisc' = d1 /\ total' = total + 1

Next == \E b \in 0..2 : Step(b)

IndInv ==
  /\ w \in [1..7 -> 0..2]
  /\ ninit \in 0..7 /\ ndisc >= 0 /\ total >= 0
  /\ Match(ninit)                                   \* ninit bytes are matched ...
  /\ \A k \in 1..7 : k > ninit => ~Match(k)         \* ... and no longer suffix is a prefix of S
  /\ ndisc + ninit = total                          \* every byte is either noise or part of the match
  /\ total >= ninit

IndInit == /\ w \in [1..7 -> 0..2] /\ ninit \in 0..7 /\ ndisc \in Int /\ total \in Int /\ IndInv
=============================================================================
