------------------------------ MODULE StreamAbs ------------------------------
(***************************************************************************)
(* Unbounded side-proof (Apalache, inductive invariant) for C13 on an      *)
(* abstraction of the streaming parser (src/parser/streaming.rs:33-98):    *)
(*   rem   bytes of input not yet consumed (n = input length, any size)    *)
(*   pend  0 expect message start, 1 expect crc + end, 2 expect list tail, *)
(*         3 list entries outstanding                                      *)
(*   items number of items next() has yielded so far                       *)
(*   errd  an error item has been yielded                                  *)
(*   ended next() has returned None                                        *)
(* Abstraction (justified by the grammar in SmlGrammar / StreamParser):    *)
(* every successful sub-parse consumes at least one byte; any sub-parse    *)
(* may fail.  On an error the input is emptied and - as repaired - the     *)
(* countdown is cleared (OnError = "clear"); as found it was kept.         *)
(* Claim: items <= n - rem + (1 if errd) <= n + 1, nothing is yielded      *)
(* after an error or after None.  With OnError = "keep" the induction step *)
(* fails (negative control; defect D6).                                    *)
(***************************************************************************)
EXTENDS Integers

CONSTANTS
  \* @type: Int;
  n,
  \* @type: Str;
  OnError

CInit == n \in Nat /\ OnError = "clear"
CInitKeep == n \in Nat /\ OnError = "keep"

VARIABLES
  \* @type: Int;
  rem,
  \* @type: Int;
  pend,
  \* @type: Int;
  items,
  \* @type: Bool;
  errd,
  \* @type: Bool;
  ended,
  \* @type: Int;
  after      \* items yielded after the first error or None (must stay 0)

Init == rem = n /\ pend = 0 /\ items = 0 /\ errd = FALSE /\ ended = FALSE /\ after = 0

Bump == IF errd \/ ended THEN after + 1 ELSE after

\* an error item: input emptied, countdown cleared or kept
Fail == /\ rem' = 0 /\ pend' = IF OnError = "clear" THEN 0 ELSE pend
        /\ items' = items + 1 /\ errd' = TRUE /\ ended' = ended /\ after' = Bump

\* a successful event that consumes at least one byte (r = bytes left afterwards) and moves the countdown to p
Ok(r, p) == /\ r >= 0 /\ r < rem /\ rem' = r /\ pend' = p
            /\ items' = items + 1 /\ errd' = errd /\ ended' = ended /\ after' = Bump

None == /\ ended' = TRUE /\ UNCHANGED <<rem, pend, items, errd, after>>

\* one call of next()  (quantifiers range over Int: Apalache skolemises them; ranges with a variable bound are avoided)
Next ==
  \/ rem = 0 /\ pend = 0 /\ None
  \/ ~(rem = 0 /\ pend = 0) /\ pend = 0 /\ (Fail \/ \E r \in Int : \E p \in {1, 3, 2} : Ok(r, p))
  \/ ~(rem = 0 /\ pend = 0) /\ pend = 3 /\ (Fail \/ \E r \in Int : \E p \in {3, 2} : Ok(r, p))
  \/ ~(rem = 0 /\ pend = 0) /\ pend = 2 /\ (Fail \/ \E r \in Int : Ok(r, 1))
  \/ pend = 1 /\ Fail                                                    \* crc / end marker unreadable or checksum wrong
  \/ pend = 1 /\ rem >= 1 /\ rem' = 0 /\ pend' = 0 /\ ended' = TRUE     \* crc + end marker were the last bytes: None
             /\ UNCHANGED <<items, errd, after>>
  \/ pend = 1 /\ \E r \in Int : \E p \in {1, 3, 2} :                    \* crc consumed silently, then the next message start
       /\ r >= 0 /\ r + 2 <= rem /\ rem' = r /\ pend' = p /\ items' = items + 1
       /\ errd' = errd /\ ended' = ended /\ after' = Bump
  \/ pend = 1 /\ rem >= 2 /\ rem' = 0 /\ pend' = 0                        \* crc consumed, next message start fails
             /\ items' = items + 1 /\ errd' = TRUE /\ ended' = ended /\ after' = Bump

IndInv ==
  /\ rem >= 0 /\ rem <= n /\ pend \in 0..3 /\ items >= 0 /\ after >= 0
  /\ items <= n - rem + (IF errd THEN 1 ELSE 0)            \* hence items <= n + 1
  /\ after = 0                                             \* nothing after the first error / None
  /\ (errd => rem = 0 /\ pend = 0)                         \* after an error the parser is in its terminal state
  /\ (ended => rem = 0 /\ pend = 0)

\* negative control: even an invariant that does not mention the countdown fails its induction step when the countdown
\* survives an error (an error item follows an error item: after' = 1)
IndInvWeak ==
  /\ rem >= 0 /\ rem <= n /\ pend \in 0..3 /\ items >= 0 /\ after >= 0
  /\ items <= n - rem + (IF errd THEN 1 ELSE 0)
  /\ after = 0
  /\ (errd => rem = 0)
  /\ (ended => rem = 0 /\ pend = 0)
IndInitWeak == /\ rem \in Int /\ pend \in 0..3 /\ items \in Int /\ errd \in BOOLEAN /\ ended \in BOOLEAN /\ after \in Int
               /\ IndInvWeak

IndInit == /\ rem \in Int /\ pend \in 0..3 /\ items \in Int /\ errd \in BOOLEAN /\ ended \in BOOLEAN /\ after \in Int
           /\ IndInv

=============================================================================
