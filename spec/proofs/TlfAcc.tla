------------------------------- MODULE TlfAcc -------------------------------
(***************************************************************************)
(* Unbounded side-proof (Apalache, inductive invariant) for the length     *)
(* accumulator of the type-length field (tlf.rs:58-97, D3): for a TLF of   *)
(* ANY number of bytes the 32-bit accumulator `acc` either equals the      *)
(* exact value `exact` of the concatenated 4-bit groups (an unbounded      *)
(* integer) - and that value fits 32 bits - or the overflow error has been *)
(* raised and the exact value does not fit 32 bits.  Hence the length the  *)
(* parser proceeds with is never wrapped or truncated (C12), and the       *)
(* result (value / overflow / underflow after subtracting the field's own  *)
(* size for non-list types) equals the result of the arbitrary-precision   *)
(* rule.  Detailed, bounded counterpart: Tlf.tla / MC_Tlf (`TlfExact`).    *)
(* With Shift = "shl" (the code as found: `checked_shl(4)` never fails)    *)
(* the induction step fails; with Shift = "u64" (a 64-bit accumulator      *)
(* truncated at the end, seeded change S9-C06) it fails as well.           *)
(*   apalache-mc check --cinit=CInit --init=IndInit --inv=IndInv --length=1 TlfAcc.tla *)
(***************************************************************************)
EXTENDS Integers

CONSTANT
  \* @type: Str;
  Shift

CInit == Shift = "mul"
CInitShl == Shift = "shl"
CInitU64 == Shift = "u64"

VARIABLES
  \* @type: Int;
  acc,      \* the accumulator of the implementation (u32; u64 in the "u64" variant)
  \* @type: Int;
  exact,    \* the exact value of the nibbles read so far
  \* @type: Int;
  nb,       \* number of TLF bytes read so far
  \* @type: Bool;
  err,      \* TlfLengthOverflow has been returned (terminal)
  \* @type: Bool;
  list      \* the type bits say "list of" (no subtraction of the field's own size)

W32 == 4294967296
W64 == 18446744073709551616

Init == /\ \E d \in 0..15 : acc = d /\ exact = d
        /\ nb = 1 /\ err = FALSE /\ list \in BOOLEAN

\* one continuation byte carrying the 4-bit group d
Step(d) ==
  /\ ~err
  /\ nb' = nb + 1 /\ exact' = exact * 16 + d /\ list' = list
  /\ IF Shift = "mul"
     THEN IF acc * 16 >= W32
          THEN err' = TRUE /\ acc' = acc
          ELSE err' = FALSE /\ acc' = acc * 16 + d
     ELSE IF Shift = "shl"
     THEN err' = FALSE /\ acc' = ((acc * 16) % W32) + d
     ELSE \* "u64": checked multiplication in 64 bits, truncated to 32 bits when used
          IF acc * 16 >= W64
          THEN err' = TRUE /\ acc' = acc
          ELSE err' = FALSE /\ acc' = acc * 16 + d

Stutter == err /\ UNCHANGED <<acc, exact, nb, err, list>>

Next == (\E d \in 0..15 : Step(d)) \/ Stutter

\* what the parser proceeds with if the TLF ends here: <<kind, value>>, kind 0 = length, 1 = overflow, 2 = underflow
Used == IF Shift = "u64" THEN acc % W32 ELSE acc
ImplKind  == IF err THEN 1 ELSE IF list \/ Used >= nb THEN 0 ELSE 2
ImplValue == IF ImplKind # 0 THEN 0 ELSE IF list THEN Used ELSE Used - nb
RefKind   == IF exact >= W32 THEN 1 ELSE IF list \/ exact >= nb THEN 0 ELSE 2
RefValue  == IF RefKind # 0 THEN 0 ELSE IF list THEN exact ELSE exact - nb

IndInv ==
  /\ nb >= 1 /\ exact >= 0 /\ acc >= 0
  /\ (Shift # "u64" => acc < W32)                    \* the accumulator stays a u32: `len += nibble` cannot overflow
  /\ (Shift = "u64" => acc < W64)
  /\ (~err => acc = exact)                           \* never wrapped, never truncated
  /\ (err => exact >= W32)                           \* the error is raised only for values that do not fit
  /\ ImplKind = RefKind /\ ImplValue = RefValue      \* same outcome as the arbitrary-precision rule

IndInit == acc \in Int /\ exact \in Int /\ nb \in Int /\ err \in BOOLEAN /\ list \in BOOLEAN /\ IndInv
=============================================================================
