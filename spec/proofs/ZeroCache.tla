----------------------------- MODULE ZeroCache -----------------------------
(***************************************************************************)
(* Unbounded side-proof (Apalache, inductive invariant) for the decoder's  *)
(* withheld-zero cache (Decoder.Push1 / Flush / PushInner,                 *)
(* src/transport/decode.rs:410-441), the densest source of seeded defects. *)
(* Data bytes of one transmission are abstracted to zero / non-zero:       *)
(*   n     data bytes consumed so far (after unescaping)                   *)
(*   tz    number of zero bytes the data ends with                         *)
(*   blen  bytes in the output buffer, zc withheld zeros, cap capacity     *)
(*   st    "in" inside the transmission, "oom" out-of-memory was reported  *)
(*         (decoder reset), "ok" delivered, "rej" rejected (padding)       *)
(* Claims, for every data length and every capacity:                       *)
(*   - zc = min(tz, 4) and blen + zc = n while inside the transmission     *)
(*     (the buffer followed by the withheld zeros IS the data);            *)
(*   - out-of-memory is reported exactly when the bytes that had to be     *)
(*     stored exceed cap (never while n - zc <= cap, always when a byte    *)
(*     that must be stored does not fit) and leaves blen = zc = 0;         *)
(*   - an end sequence with pad count p <= 3 delivers exactly n - p bytes  *)
(*     iff p <= tz and n - p <= cap; p > tz is rejected.                   *)
(* Variant = "code" is the logic as written; "phantom" keeps zc across the *)
(* out-of-memory reset (seeded change S2-C16), "five" withholds a fifth    *)
(* zero (S2-C01): both fail the induction step (negative controls).        *)
(***************************************************************************)
EXTENDS Integers

CONSTANTS
  \* @type: Int;
  cap,
  \* @type: Str;
  Variant

CInit == cap \in Nat /\ Variant = "code"
CInitPhantom == cap \in Nat /\ Variant = "phantom"
CInitFive == cap \in Nat /\ Variant = "five"

VARIABLES
  \* @type: Int;
  n,
  \* @type: Int;
  tz,
  \* @type: Int;
  blen,
  \* @type: Int;
  zc,
  \* @type: Str;
  st,
  \* @type: Int;
  delivered,
  \* @type: Int;
  need       \* ghost: when out-of-memory was reported, the number of bytes that had to be in the buffer

MinI(a, b) == IF a <= b THEN a ELSE b
Limit == IF Variant = "five" THEN 5 ELSE 4

Init == n = 0 /\ tz = 0 /\ blen = 0 /\ zc = 0 /\ st = "in" /\ delivered = -1 /\ need = 0

\* reset after out-of-memory: buffer cleared, zero cache cleared (kept in the "phantom" variant)
Oom(k) == /\ st' = "oom" /\ blen' = 0 /\ zc' = (IF Variant = "phantom" THEN zc ELSE 0)
          /\ need' = k /\ UNCHANGED <<delivered>>

\* a zero data byte: withheld while fewer than Limit are, else stored directly
Zero ==
  /\ st = "in" /\ n' = n + 1 /\ tz' = tz + 1
  /\ IF zc < Limit THEN zc' = zc + 1 /\ UNCHANGED <<blen, st, delivered, need>>
     ELSE IF blen >= cap THEN Oom(n + 1 - Limit)             \* all data but the Limit withheld zeros
     ELSE blen' = blen + 1 /\ UNCHANGED <<zc, st, delivered, need>>

\* a non-zero data byte: the withheld zeros are flushed one by one, then the byte is stored
NonZero ==
  /\ st = "in" /\ n' = n + 1 /\ tz' = 0
  /\ IF blen + zc + 1 > cap THEN Oom(n + 1)              \* some push in flush or the byte itself does not fit
     ELSE blen' = blen + zc + 1 /\ zc' = 0 /\ UNCHANGED <<st, delivered, need>>

\* end sequence announcing p padding bytes (0..3): they are taken from the withheld zeros, the rest is flushed
End == \E p \in 0..3 :
  /\ st = "in" /\ UNCHANGED <<n, tz>>
  /\ IF p > zc THEN st' = "rej" /\ blen' = 0 /\ zc' = 0 /\ need' = p /\ UNCHANGED delivered
     ELSE IF blen + (zc - p) > cap THEN Oom(n - p)
     ELSE st' = "ok" /\ delivered' = blen + (zc - p) /\ blen' = 0 /\ zc' = 0 /\ need' = n - p

Next == Zero \/ NonZero \/ End \/ (st # "in" /\ UNCHANGED <<n, tz, blen, zc, st, delivered, need>>)

\* (the padding a frame announces is p <= 3, so p <= tz iff p <= min(tz, 4): rejecting on p > zc is exact)
IndInv ==
  /\ n >= 0 /\ tz >= 0 /\ tz <= n /\ blen >= 0 /\ zc >= 0
  /\ st \in {"in", "oom", "ok", "rej"}
  /\ (st = "in" => /\ zc = MinI(tz, 4)
                   /\ blen + zc = n                      \* buffer ++ withheld zeros = data
                   /\ blen <= cap)
  /\ (st = "oom" => /\ blen = 0 /\ zc = 0                \* the decoder is clean after the reset
                    /\ need > cap /\ need <= n)          \* and the bytes that had to be stored did not fit
  /\ (st = "ok" => /\ delivered = need /\ delivered >= 0 /\ delivered <= cap
                   /\ n - delivered \in 0..3 /\ n - delivered <= tz)
  /\ (st = "rej" => need > tz /\ need \in 1..3)          \* rejected only when the announced padding is not there

IndInit ==
  /\ n \in Int /\ tz \in Int /\ blen \in Int /\ zc \in Int /\ delivered \in Int /\ need \in Int
  /\ st \in {"in", "oom", "ok", "rej"}
  /\ IndInv
=============================================================================
