---------------------------- MODULE TlfAccProof ----------------------------
(***************************************************************************)
(* TLAPS counterpart of proofs/TlfAcc.tla (Apalache) for the accumulator   *)
(* as repaired (tlf.rs:68-82, `checked_mul(16)`): theorem Spec => []IndInv *)
(* for type-length fields of ANY number of bytes - the 32-bit accumulator  *)
(* equals the exact value of the concatenated 4-bit groups unless the      *)
(* overflow error has been raised, which happens only for values that do   *)
(* not fit 32 bits; `len += nibble` never overflows.  Checked by tlapm     *)
(* (Z3 + PTL) in C12 and in `setup`.                                       *)
(***************************************************************************)
EXTENDS Integers, TLAPS

VARIABLES acc, exact, nb, err
vars == <<acc, exact, nb, err>>

W32 == 4294967296

Init == /\ acc \in 0..15 /\ exact = acc /\ nb = 1 /\ err = FALSE

Step(d) ==
  /\ ~err
  /\ nb' = nb + 1 /\ exact' = exact * 16 + d
  /\ IF acc * 16 >= W32
     THEN err' = TRUE /\ acc' = acc
     ELSE err' = FALSE /\ acc' = acc * 16 + d

Next == \E d \in 0..15 : Step(d)
Spec == Init /\ [][Next]_vars

IndInv ==
  /\ acc \in Nat /\ exact \in Nat /\ nb \in Nat /\ err \in BOOLEAN
  /\ nb >= 1
  /\ acc < W32                        \* the accumulator stays a u32
  /\ (~err => acc = exact)            \* never wrapped, never truncated
  /\ (err => exact >= W32)            \* the error is raised only for values that do not fit

THEOREM InitOK == Init => IndInv
  BY Z3 DEF Init, IndInv, W32

THEOREM StepOK == IndInv /\ [Next]_vars => IndInv'
  <1> SUFFICES ASSUME IndInv, [Next]_vars PROVE IndInv'
    OBVIOUS
  <1>1. CASE Next
    <2>1. PICK d \in 0..15 : Step(d)
      BY <1>1 DEF Next
    <2>2. ~err /\ acc = exact /\ acc \in Nat /\ acc < W32 /\ nb \in Nat /\ nb >= 1
      BY <2>1 DEF Step, IndInv
    <2>3. CASE acc * 16 >= W32
      <3>1. err' = TRUE /\ acc' = acc /\ exact' = exact * 16 + d /\ nb' = nb + 1
        BY <2>1, <2>3 DEF Step
      <3> QED BY <3>1, <2>2, <2>3, Z3 DEF IndInv, W32
    <2>4. CASE ~(acc * 16 >= W32)
      <3>1. err' = FALSE /\ acc' = acc * 16 + d /\ exact' = exact * 16 + d /\ nb' = nb + 1
        BY <2>1, <2>4 DEF Step
      <3> QED BY <3>1, <2>2, <2>4, Z3 DEF IndInv, W32
    <2> QED BY <2>3, <2>4
  <1>2. CASE UNCHANGED vars
    BY <1>2 DEF vars, IndInv
  <1> QED BY <1>1, <1>2

THEOREM Safety == Spec => []IndInv
  BY InitOK, StepOK, PTL DEF Spec
=============================================================================
