-------------------------- MODULE PadCounterProof --------------------------
(***************************************************************************)
(* The same statement as proofs/PadCounter.tla, as a TLAPS theorem:        *)
(* Spec => []IndInv, for every number of payload bytes.                    *)
(***************************************************************************)
EXTENDS Integers, TLAPS

VARIABLES pad, n
vars == <<pad, n>>

Init == pad = 0 /\ n = 0
Next == pad' = (pad + 255) % 256 /\ n' = n + 1
Spec == Init /\ [][Next]_vars

PadCount == pad % 4
IndInv == /\ pad \in 0..255 /\ n \in Nat
          /\ (pad + n) % 4 = 0
          /\ PadCount <= 3 /\ (n + PadCount) % 4 = 0

THEOREM InitOK == Init => IndInv
  BY DEF Init, IndInv, PadCount

THEOREM StepOK == IndInv /\ [Next]_vars => IndInv'
  <1> SUFFICES ASSUME IndInv, [Next]_vars PROVE IndInv'
    OBVIOUS
  <1>1. CASE Next
    <2>0. pad \in 0..255 /\ n \in Nat /\ (pad + n) % 4 = 0
      BY DEF IndInv
    <2>1. pad' = (IF pad = 0 THEN 255 ELSE pad - 1) /\ n' = n + 1
      BY <1>1, <2>0, Z3 DEF Next
    <2>2. CASE pad = 0
      <3>1. pad' = 255 /\ n' = n + 1 /\ n % 4 = 0
        BY <2>0, <2>1, <2>2, Z3
      <3> QED BY <3>1, <2>0, Z3 DEF IndInv, PadCount
    <2>3. CASE pad # 0
      <3>1. pad' = pad - 1 /\ n' = n + 1 /\ pad' \in 0..255
        BY <2>0, <2>1, <2>3, Z3
      <3>2. (pad' + n') % 4 = 0
        BY <3>1, <2>0, Z3
      <3>3. pad' % 4 \in 0..3 /\ (n' + pad' % 4) % 4 = 0
        BY <3>1, <3>2, <2>0, Z3
      <3> QED BY <3>1, <3>2, <3>3, <2>0 DEF IndInv, PadCount
    <2> QED BY <2>2, <2>3
  <1>2. CASE UNCHANGED vars
    BY <1>2 DEF vars, IndInv, PadCount
  <1> QED BY <1>1, <1>2

THEOREM Safety == Spec => []IndInv
  BY InitOK, StepOK, PTL DEF Spec
=============================================================================
