---------------------------- MODULE ArrayBufRef ----------------------------
(***************************************************************************)
(* Unbounded side-proof (Apalache, inductive invariant) for C18: the       *)
(* array-with-stale-bytes representation of ArrayBuf<N> (ArrayBuf.tla,     *)
(* src/util.rs:79-150) refines the ideal bounded vector after ANY number   *)
(* of operations, for every capacity N <= 4, all byte values and all slice *)
(* lengths.  Arrays are total functions on 1..4 (Apalache needs constant   *)
(* domains); a slice argument is (s, l): its first l cells count, and its  *)
(* cells are only read when it fits (l <= N - num <= 4).                   *)
(*   buf, num   implementation: backing array and logical length           *)
(*   iv, ilen   ideal vector (cells beyond ilen are irrelevant)            *)
(*   res, ires  result of the last operation on either side                *)
(* Stale = "lazy" keeps bytes beyond num in buf (what the code does);      *)
(* Trunc = "min" is truncate as written, "set" is a truncate that assigns  *)
(* min(k, N) (seeded change S6-C18, negative control).                     *)
(***************************************************************************)
EXTENDS Integers

CONSTANTS
  \* @type: Int;
  N,
  \* @type: Str;
  Trunc

CInit == N \in 0..4 /\ Trunc = "min"
CInitSet == N \in 0..4 /\ Trunc = "set"

VARIABLES
  \* @type: Int -> Int;
  buf,
  \* @type: Int;
  num,
  \* @type: Int -> Int;
  iv,
  \* @type: Int;
  ilen,
  \* @type: Str;
  res,
  \* @type: Str;
  ires

Cells == 1..4
MinI(a, b) == IF a <= b THEN a ELSE b

Init == /\ buf = [i \in Cells |-> 0] /\ num = 0
        /\ iv = [i \in Cells |-> 0] /\ ilen = 0
        /\ res = "ok" /\ ires = "ok"

Push == \E b \in Int :
  /\ IF num = N THEN /\ res' = "oom" /\ UNCHANGED <<buf, num>>
     ELSE /\ res' = "ok" /\ buf' = [buf EXCEPT ![num + 1] = b] /\ num' = num + 1
  /\ IF ilen + 1 > N THEN /\ ires' = "oom" /\ UNCHANGED <<iv, ilen>>
     ELSE /\ ires' = "ok" /\ iv' = [iv EXCEPT ![ilen + 1] = b] /\ ilen' = ilen + 1

Extend == \E s \in [Cells -> Int] : \E l \in Nat :
  /\ IF num + l > N THEN /\ res' = "oom" /\ UNCHANGED <<buf, num>>
     ELSE /\ res' = "ok" /\ num' = num + l
          /\ buf' = [i \in Cells |-> IF i > num /\ i <= num + l THEN s[i - num] ELSE buf[i]]
  /\ IF ilen + l > N THEN /\ ires' = "oom" /\ UNCHANGED <<iv, ilen>>
     ELSE /\ ires' = "ok" /\ ilen' = ilen + l
          /\ iv' = [i \in Cells |-> IF i > ilen /\ i <= ilen + l THEN s[i - ilen] ELSE iv[i]]

Truncate == \E k \in Nat :
  /\ res' = "ok" /\ buf' = buf
  /\ num' = IF Trunc = "min" THEN MinI(num, k) ELSE MinI(k, N)
  /\ ires' = "ok" /\ iv' = iv /\ ilen' = MinI(ilen, k)

Clear ==
  /\ res' = "ok" /\ buf' = buf /\ num' = 0
  /\ ires' = "ok" /\ iv' = iv /\ ilen' = 0

\* from_iter: a new buffer filled by pushes; more than N items panic (documented) and leave the old object alone
FromIter == \E s \in [Cells -> Int] : \E l \in Nat :
  /\ IF l > N THEN /\ res' = "panic" /\ UNCHANGED <<buf, num>>
     ELSE /\ res' = "ok" /\ num' = l /\ buf' = [i \in Cells |-> IF i <= l THEN s[i] ELSE 0]
  /\ IF l > N THEN /\ ires' = "panic" /\ UNCHANGED <<iv, ilen>>
     ELSE /\ ires' = "ok" /\ ilen' = l /\ iv' = [i \in Cells |-> IF i <= l THEN s[i] ELSE iv[i]]

Next == Push \/ Extend \/ Truncate \/ Clear \/ FromIter

\* the view (Deref) of the implementation equals the ideal vector, and both sides returned the same result
IndInv ==
  /\ num \in 0..4 /\ num <= N /\ ilen = num
  /\ \A i \in Cells : i <= num => buf[i] = iv[i]
  /\ res = ires /\ res \in {"ok", "oom", "panic"}

IndInit ==
  /\ buf \in [Cells -> Int] /\ iv \in [Cells -> Int]
  /\ num \in Int /\ ilen \in Int
  /\ res \in {"ok", "oom", "panic"} /\ ires \in {"ok", "oom", "panic"}
  /\ IndInv
=============================================================================
