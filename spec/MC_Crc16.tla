------------------------------ MODULE MC_Crc16 ------------------------------
(* Checks the literal CRC table of Crc16 against the bitwise definition (run by `vf setup`). *)
EXTENDS Crc16
VARIABLE i
Init == i = 0
Next == i < 255 /\ i' = i + 1
TableOK == CrcTableLit[i + 1] = CrcBit8(i, 8) /\ CrcTable[i] = CrcTableLit[i + 1]
=============================================================================
