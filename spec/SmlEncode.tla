----------------------------- MODULE SmlEncode -----------------------------
(***************************************************************************)
(* The SML grammar in the *encode* direction: an abstract file (the value  *)
(* shape of SmlGrammar) plus encoding choices  ->  bytes.  Written from    *)
(* the SML 1.04 description independently of SmlGrammar's decode direction *)
(* so that MC_Grammar can check the two readings against each other        *)
(* (ParseFile(Encode(F, c)) = F), and so that TLC can generate valid files *)
(* for replay into the real parsers (binding B of C03).                    *)
(*                                                                         *)
(* Choices c (a record):                                                   *)
(*   extra    0..2   extra leading TLF bytes (non-minimal / multi-byte)    *)
(*   intfull  BOOLEAN  integers at full class width vs. shortest in class  *)
(*   timebare BOOLEAN  time as bare unsigned-32 (vendor form) vs. list(2)  *)
(*   where    "all" | field class the extra TLF bytes apply to             *)
(* Operator module (no VARIABLES).                                         *)
(***************************************************************************)
EXTENDS Bytes, Crc16

\* ---- type-length fields ---------------------------------------------------
RECURSIVE Pow16(_)
Pow16(n) == IF n = 0 THEN 1 ELSE 16 * Pow16(n - 1)

\* minimal number of TLF bytes for a declared length (which includes the TLF itself for non-list types)
RECURSIVE MinN(_, _, _)
MinN(len, isList, n) == IF (IF isList THEN len ELSE len + n) < Pow16(n) THEN n ELSE MinN(len, isList, n + 1)

TlfBytes(ty, len, n, isList) ==
  LET v == IF isList THEN len ELSE len + n IN
  [k \in 1..n |-> (IF k < n THEN 128 ELSE 0) + (IF k = 1 THEN 16 * ty ELSE 0) + ((v \div Pow16(n - k)) % 16)]

Tlf(ty, len, extra, isList) == TlfBytes(ty, len, MinN(len, isList, 1) + extra, isList)

Ex(c, cls) == IF c.where \in {"all", cls} THEN c.extra ELSE 0

\* ---- primitives -----------------------------------------------------------
EOctet(b, c) ==
  \* a one-byte TLF 01 would be read as "absent" in an optional position, so an empty string there gets a 2-byte TLF
  Tlf(0, Len(b), Ex(c, "octet"), FALSE) \o b
EOctetOpt(b, c) ==
  IF b = <<>> /\ Ex(c, "octet") = 0 THEN TlfBytes(0, 0, 2, FALSE) ELSE EOctet(b, c)

\* drop leading zero bytes down to a minimal length (the shortest length of the same width class)
RECURSIVE ShortenU(_, _)
ShortenU(b, minlen) == IF Len(b) > minlen /\ b[1] = 0 THEN ShortenU(Drop(b, 1), minlen) ELSE b
MinLenOfClass(cl) == IF cl = 8 THEN 1 ELSE IF cl = 16 THEN 2 ELSE IF cl = 32 THEN 3 ELSE 5

EUintBytes(b, c) == Tlf(6, Len(b), Ex(c, "num"), FALSE) \o b
EIntBytes(b, c)  == Tlf(5, Len(b), Ex(c, "num"), FALSE) \o b

\* unsigned of a width class: full width, or without leading zero bytes (never below the class' shortest length)
EUnsigned(cl, be, c) == EUintBytes(IF c.intfull THEN be ELSE ShortenU(be, MinLenOfClass(cl)), c)
\* signed: dropping a leading 0x00 needs the next byte < 0x80, dropping 0xff needs it >= 0x80
RECURSIVE ShortenSigned(_, _)
ShortenSigned(b, minlen) ==
  IF Len(b) > minlen /\ ((b[1] = 0 /\ b[2] < 128) \/ (b[1] = 255 /\ b[2] > 127))
  THEN ShortenSigned(Drop(b, 1), minlen) ELSE b
ESigned(cl, be, c) == EIntBytes(IF c.intfull THEN be ELSE ShortenSigned(be, MinLenOfClass(cl)), c)

EU8(v, c) == EUintBytes(<<v>>, c)
EI8(v, c) == EIntBytes(<<IF v < 0 THEN v + 256 ELSE v>>, c)

ETime(t, c) ==
  IF c.timebare THEN <<101>> \o t                                            \* 65 xx xx xx xx
  ELSE Tlf(7, 2, Ex(c, "list"), TRUE) \o EU8(1, c)
       \o EUintBytes(IF c.intfull THEN t ELSE ShortenU(t, 1), c)

Absent == <<1>>
EOptOctet(o, c) == IF o = <<>> THEN Absent ELSE EOctetOpt(o[1], c)
EOptTime(o, c)  == IF o = <<>> THEN Absent ELSE ETime(o[1], c)
EOptU8(o, c)    == IF o = <<>> THEN Absent ELSE EU8(o[1], c)
EOptI8(o, c)    == IF o = <<>> THEN Absent ELSE EI8(o[1], c)
EOptStatus(o, c) == IF o = <<>> THEN Absent ELSE EUnsigned(o[1][1], o[1][2], c)

EValue(v, c) ==
  CASE v[1] = 0 -> <<66, IF v[2] = 1 THEN 255 ELSE 0>>                        \* 42 xx
    [] v[1] = 1 -> EOctet(v[2], c)
    [] v[1] = 2 -> ESigned(v[2], v[3], c)
    [] v[1] = 3 -> EUnsigned(v[2], v[3], c)
    [] OTHER    -> Tlf(7, 2, Ex(c, "list"), TRUE) \o EU8(1, c) \o ETime(v[2], c)

EEntry(e, c) ==
  Tlf(7, 7, Ex(c, "list"), TRUE) \o EOctet(e[1], c) \o EOptStatus(e[2], c) \o EOptTime(e[3], c)
  \o EOptU8(e[4], c) \o EOptI8(e[5], c) \o EValue(e[6], c) \o EOptOctet(e[7], c)

RECURSIVE EEntries(_, _, _)
EEntries(es, k, c) == IF k > Len(es) THEN <<>> ELSE EEntry(es[k], c) \o EEntries(es, k + 1, c)

EBody(b, c) ==
  CASE b[1] = 1 ->
         Tlf(7, 6, Ex(c, "list"), TRUE) \o EOptOctet(b[2], c) \o EOptOctet(b[3], c) \o EOctet(b[4], c)
         \o EOctet(b[5], c) \o EOptTime(b[6], c) \o EOptU8(b[7], c)
    [] b[1] = 2 -> Tlf(7, 1, Ex(c, "list"), TRUE) \o EOptOctet(b[2], c)
    [] OTHER ->
         Tlf(7, 7, Ex(c, "list"), TRUE) \o EOptOctet(b[2], c) \o EOctet(b[3], c) \o EOptOctet(b[4], c)
         \o EOptTime(b[5], c) \o Tlf(7, Len(b[6]), Ex(c, "list"), TRUE) \o EEntries(b[6], 1, c)
         \o EOptOctet(b[7], c) \o EOptTime(b[8], c)

TagOf(b) == IF b[1] = 1 THEN <<1, 1>> ELSE IF b[1] = 2 THEN <<2, 1>> ELSE <<7, 1>>

EMessage(m, c) ==
  LET pre == Tlf(7, 6, Ex(c, "list"), TRUE) \o EOctet(m[1], c) \o EU8(m[2], c) \o EU8(m[3], c)
             \o Tlf(7, 2, Ex(c, "list"), TRUE)
             \o EUintBytes(IF c.intfull THEN <<0, 0>> \o TagOf(m[4]) ELSE TagOf(m[4]), c)
             \o EBody(m[4], c)
      d == Crc16(pre)
  IN pre \o <<99, d % 256, d \div 256, 0>>                                    \* 63 lo hi 00

RECURSIVE EFile(_, _, _)
EFile(f, k, c) == IF k > Len(f) THEN <<>> ELSE EMessage(f[k], c) \o EFile(f, k + 1, c)
Encode(f, c) == EFile(f, 1, c)

Choices == [extra : 0..2, intfull : BOOLEAN, timebare : BOOLEAN, where : {"all", "octet", "num", "list"}]
=============================================================================
