------------------------------ MODULE Encoder ------------------------------
(***************************************************************************)
(* The two encoders of sml-rs (src/transport/encode.rs).                   *)
(*  - iterator encoder (Encoder<I>, lines 71-134) as a state machine       *)
(*    Init(n) / Looking(n) / Handling(n) / End(n) with the 8-bit wrapping  *)
(*    Padding counter and the incremental CRC; EncNext is one next() call. *)
(*  - buffer encoder (encode::<B>, lines 176-212) as a straight-line       *)
(*    program with an OutOfMemory exit at every push / extend_from_slice.  *)
(* Operator module (no VARIABLES).                                         *)
(***************************************************************************)
EXTENDS Frame

EncNone  == -1     \* next() returned None
EncPanic == -2     \* assert_eq! / unreachable!() arm reached

CrcAfterStartE == CrcFeed(CrcInit, StartSeq)

EncInit == [st |-> "Init", n |-> 0, crc |-> CrcAfterStartE, pad |-> 0, i |-> 1]

RECURSIVE EncNext(_, _)
EncNext(e, p) ==
  CASE e.st = "Init" ->
         IF e.n < 4 THEN [e |-> [e EXCEPT !.n = @ + 1], out |-> 27]
         ELSE IF e.n < 8 THEN [e |-> [e EXCEPT !.n = @ + 1], out |-> 1]
         ELSE IF e.n = 8 THEN EncNext([e EXCEPT !.st = "Looking", !.n = 0], p)
         ELSE [e |-> e, out |-> EncPanic]
    [] e.st = "Looking" ->
         IF e.n < 4
         THEN IF e.i <= Len(p)
              THEN LET b == p[e.i]
                   IN [e |-> [e EXCEPT !.i = @ + 1,
                                       !.pad = (@ + 255) % 256,      \* wrapping_sub(1)
                                       !.crc = CrcStep(@, b),
                                       !.n = IF b = 27 THEN e.n + 1 ELSE 0],
                       out |-> b]
              ELSE LET padding == e.pad % 4                          \* & 0x3
                       c == CrcFeed(e.crc, Rep(0, padding) \o <<27, 27, 27, 27, 26, padding>>)
                   IN EncNext([e EXCEPT !.st = "End", !.n = 0 - padding, !.crc = c], p)
         ELSE IF e.n = 4
              THEN EncNext([e EXCEPT !.st = "Handling", !.n = 0, !.crc = CrcFeed(@, EscSeq)], p)
              ELSE [e |-> e, out |-> EncPanic]
    [] e.st = "Handling" ->
         IF e.n < 4 THEN [e |-> [e EXCEPT !.n = @ + 1], out |-> 27]
         ELSE IF e.n = 4 THEN EncNext([e EXCEPT !.st = "Looking", !.n = 0], p)
         ELSE [e |-> e, out |-> EncPanic]
    [] e.st = "End" ->
         IF e.n = 8 THEN [e |-> e, out |-> EncNone]
         ELSE IF e.n > 8 THEN [e |-> e, out |-> EncPanic]
         ELSE LET c == CrcFin(e.crc)
                  o == IF e.n < 0 THEN 0
                       ELSE IF e.n < 4 THEN 27
                       ELSE IF e.n = 4 THEN 26
                       ELSE IF e.n = 5 THEN e.pad % 4
                       ELSE IF e.n = 6 THEN c % 256 ELSE c \div 256
              IN [e |-> [e EXCEPT !.n = @ + 1], out |-> o]

\* collect the iterator's output until it returns None (or panics)
RECURSIVE IterCollect(_, _, _, _)
IterCollect(e, p, acc, fuel) ==
  IF fuel = 0 THEN [bytes |-> acc, end |-> "fuel"]
  ELSE LET r == EncNext(e, p)
       IN IF r.out = EncNone THEN [bytes |-> acc, end |-> "none", e |-> r.e]
          ELSE IF r.out = EncPanic THEN [bytes |-> acc, end |-> "panic"]
          ELSE IterCollect(r.e, p, Append(acc, r.out), fuel - 1)
IterEncode(p) == IterCollect(EncInit, p, <<>>, 2 * Len(p) + 40)

(***************************************************************************)
(* Buffer encoder with capacity cap: returns [ok |-> TRUE, bytes] or       *)
(* [ok |-> FALSE] (OutOfMemory).                                           *)
(***************************************************************************)
BOom == [ok |-> FALSE, bytes |-> <<>>]
BExtend(r, s, cap) == IF ~r.ok \/ Len(r.bytes) + Len(s) > cap THEN BOom
                      ELSE [ok |-> TRUE, bytes |-> r.bytes \o s]
BPush(r, b, cap) == IF ~r.ok \/ Len(r.bytes) = cap THEN BOom
                    ELSE [ok |-> TRUE, bytes |-> Append(r.bytes, b)]

RECURSIVE BufLoop(_, _, _, _, _)
BufLoop(r, p, i, num1b, cap) ==
  IF ~r.ok \/ i > Len(p) THEN r
  ELSE LET b  == p[i]
           k  == IF b = 27 THEN num1b + 1 ELSE 0
           r1 == BPush(r, b, cap)
           r2 == IF k = 4 THEN BExtend(r1, EscSeq, cap) ELSE r1
       IN BufLoop(r2, p, i + 1, IF k = 4 THEN 0 ELSE k, cap)

BufEncode(p, cap) ==
  LET r0 == BExtend([ok |-> TRUE, bytes |-> <<>>], StartSeq, cap)
      r1 == BufLoop(r0, p, 1, 0, cap)
  IN IF ~r1.ok THEN BOom
     ELSE LET pad == (4 - (Len(r1.bytes) % 4)) % 4
              r2  == BExtend(r1, Rep(0, pad), cap)
              r3  == BExtend(r2, <<27, 27, 27, 27, 26, pad>>, cap)
          IN IF ~r3.ok THEN BOom
             ELSE LET c == Crc16(r3.bytes) IN BExtend(r3, <<c % 256, c \div 256>>, cap)
=============================================================================
