------------------------------ MODULE FaultRule ------------------------------
(***************************************************************************)
(* C11 as operators over one fault schedule and the results observed for   *)
(* it.  items: the schedule (bytes 0..255, 300 would-block, 301            *)
(* interrupted, 302 other error); api: 0 next, 1 read, 2 next_nb,          *)
(* 3 read_nb; res: the results of repeated calls until end of input was    *)
(* reported three times; clean: the results for the same bytes without any *)
(* fault; fresh: the results of a new reader on the items after the first  *)
(* other-error (positions relative to that point).                         *)
(* Used by the monitor J_C11 (on recorded results of the real reader) and  *)
(* by MC_Reader (on the results of the specification's reader).            *)
(***************************************************************************)
EXTENDS TileRule

IsWbRes(e)  == (e[2] = 9 /\ e[3] = 1) \/ e[2] = 13
IsOthRes(e) == e[2] = 9 /\ e[3] = 2
IsEofRes(e) == e[2] = 9 /\ e[3] = 0
IsNone(e)   == e[2] = 10

CountItems(items, v) == Len(SelectSeq(items, LAMBDA x : x = v))
NBytes(items) == Len(SelectSeq(items, LAMBDA x : x < 256))
FirstIdx(s, P(_)) == IF \E k \in 1..Len(s) : P(s[k]) THEN CHOOSE k \in 1..Len(s) : P(s[k]) /\ \A j \in 1..(k - 1) : ~P(s[j]) ELSE 0

Shift(evs, off) == [k \in 1..Len(evs) |-> [evs[k] EXCEPT ![1] = @ + off]]

\* (1) would-block and interrupted never change the sequence of decoded results
Transparent(items, res, clean) ==
  CountItems(items, 302) = 0 => SelectSeq(res, LAMBDA e : ~IsWbRes(e)) = clean

\* (2) every would-block surfaces exactly once, with zero discarded bytes
WbOnce(items, res) ==
  /\ Len(SelectSeq(res, IsWbRes)) = CountItems(items, 300)
  /\ \A k \in 1..Len(res) : (res[k][2] = 9 /\ res[k][3] = 1) => res[k][4] = 0

\* (3) any other error: exact count (via Tile), then like a fresh reader on the rest
OtherRule(items, res, fresh) ==
  LET io == FirstIdx(items, LAMBDA x : x = 302)
      ro == FirstIdx(res, IsOthRes)
  IN IF io = 0 THEN ro = 0
     ELSE /\ ro > 0
          /\ res[ro][1] = NBytes(Take(items, io))
          /\ Drop(res, ro) = Shift(fresh, NBytes(Take(items, io)))

\* (4) end of input: next = None iff nothing is pending, and it stays None; read reports the end-of-file error
EndRule(api, res) ==
  LET L == Len(res) IN
  /\ L >= 3
  /\ IF api \in {0, 2}
     THEN /\ \A k \in (L - 2)..L : IsNone(res[k])
          /\ \A k \in 1..L : ~(IsEofRes(res[k]) /\ res[k][4] = 0)            \* never IoErr(Eof, 0) instead of None
          /\ \A k \in 1..(L - 1) : IsNone(res[k]) => IsNone(res[k + 1])      \* once None, always None
     ELSE /\ \A k \in (L - 2)..L : IsEofRes(res[k])
          /\ \A k \in 1..L : ~IsNone(res[k])

(***************************************************************************)
(* The same clauses for an embedded-hal 0.2 serial source: there is no     *)
(* end of input (an exhausted schedule answers would-block; the recorded   *)
(* run stops after two such answers), so next() never returns None, no     *)
(* end-of-file error appears, and bytes of an unfinished frame may remain  *)
(* unreported at the end (TileOpen).                                       *)
(***************************************************************************)
RECURSIVE TileOpen(_, _, _, _)
TileOpen(evs, k, bnd, T) ==
  IF k > Len(evs) THEN bnd <= T
  ELSE LET e == evs[k] pos == e[1] kind == e[2] IN
    CASE kind = 1 -> pos - FrameLen(EvArgs(e)) = bnd /\ TileOpen(evs, k + 1, pos, T)
      [] kind = 2 -> Len(e) = 3 /\ pos = bnd + e[3] + 8 /\ TileOpen(evs, k + 1, bnd + e[3], T)
      [] kind \in {3, 4, 5} -> pos > bnd /\ TileOpen(evs, k + 1, pos, T)
      [] kind = 9 -> Len(e) = 4 /\ (IF e[3] = 1 THEN e[4] = 0 /\ TileOpen(evs, k + 1, bnd, T)
                                   ELSE e[3] = 2 /\ e[4] = pos - bnd /\ TileOpen(evs, k + 1, pos, T))
      [] kind = 13 -> TileOpen(evs, k + 1, bnd, T)
      [] OTHER -> FALSE

FaultClausesEh(items, api, res, clean, fresh) ==
  /\ \A k \in 1..Len(res) : IsEv(res[k]) /\ ~Abnormal(res[k]) /\ ~IsNone(res[k]) /\ ~IsEofRes(res[k])
  /\ (CountItems(items, 302) = 0 =>
        SelectSeq(res, LAMBDA e : ~IsWbRes(e)) = SelectSeq(clean, LAMBDA e : ~IsWbRes(e)))
  /\ Len(SelectSeq(res, IsWbRes)) = CountItems(items, 300) + 2          \* every would-block once, plus the two final ones
  /\ \A k \in 1..Len(res) : (res[k][2] = 9 /\ res[k][3] = 1) => res[k][4] = 0
  /\ OtherRule(items, res, fresh)
  /\ TileOpen(res, 1, 0, NBytes(items))

FaultClauses(items, api, res, clean, fresh) ==
  /\ \A k \in 1..Len(res) : IsEv(res[k]) /\ ~Abnormal(res[k])
  /\ Transparent(items, res, clean)
  /\ WbOnce(items, res)
  /\ OtherRule(items, res, fresh)
  /\ EndRule(api, res)
  /\ Tile(res, 1, 0, NBytes(items))
=============================================================================
