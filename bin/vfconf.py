"""Property table and model-checking configurations of the sml-rs verification (used by bin/vf)."""

CAPINF = 1073741824


def dec_cfg(tokens, first, maxtok, invs, caps="{1073741824}", fallback="kmp", width=0, paylen=0, props=(), spec="Spec", overrides=()):
    """cfg text for MC_Decoder.tla; maxtok may be a function of the tier"""
    def mk(tier):
        mt = maxtok(tier) if callable(maxtok) else maxtok
        pl = paylen(tier) if callable(paylen) else paylen
        cp = caps(tier) if callable(caps) else caps
        t = ["SPECIFICATION %s" % spec, "CONSTANTS",
             '  MatcherFallback = "%s"' % fallback, "  DiscWidth = %d" % width,
             "  Tokens <- %s" % tokens, "  FirstTokens <- %s" % first,
             "  MaxTok = %d" % mt, "  Caps %s" % (("= " + cp) if cp.startswith("{") else ("<- " + cp)), "  PayLen = %d" % pl]
        t += ["  %s" % o for o in overrides]      # definition overrides, e.g. "RealignStrict <- RealignLoose"
        t += ["INVARIANT %s" % i for i in invs]
        t += ["PROPERTY %s" % p for p in props]
        t += ["CHECK_DEADLOCK FALSE"]
        return "\n".join(t) + "\n"
    return mk


def q(a, b):
    return lambda tier: b if tier == "thorough" else a


def grammar_cfg(shift="mul", poe="clear", pw=64, emit="FALSE", mall="FALSE", invs=("RoundTrip", "Agrees", "Terminates", "Total", "NoCountdownOverflow")):
    t = ["SPECIFICATION Spec", "CONSTANTS", '  ShiftCheck = "%s"' % shift, '  PendingOnError = "%s"' % poe, "  PendingWidth = %d" % pw,
         "  EmitJson = %s" % emit, "  MutateAll = %s" % mall]
    t += ["INVARIANT %s" % i for i in invs] + ["CHECK_DEADLOCK FALSE"]
    return "\n".join(t) + "\n"


def reader_cfg(base, maxfaults, src):
    return "\n".join(["SPECIFICATION Spec", "CONSTANTS", '  MatcherFallback = "kmp"', "  DiscWidth = 0", "  BaseId = %d" % base, "  MaxFaults = %d" % maxfaults,
                      "  Cap = 1073741824", '  SrcKind = "%s"' % src, "INVARIANT FaultsOK", "INVARIANT LoopsAgree", "CHECK_DEADLOCK FALSE"]) + "\n"


def link_cfg(maxfiles, matcher):
    return "\n".join(["SPECIFICATION Spec", "CONSTANTS", '  ShiftCheck = "mul"', '  PendingOnError = "clear"', "  PendingWidth = 64", "  MaxFiles = %d" % maxfiles,
                      '  LinkMatcher = "%s"' % matcher, "INVARIANT LinkOK", "CHECK_DEADLOCK FALSE"]) + "\n"


def tlf_cfg(shift, first, nxt, maxlen):
    return "\n".join(["SPECIFICATION Spec", "CONSTANTS", '  ShiftCheck = "%s"' % shift, "  FirstBytes <- %s" % first, "  NextBytes <- %s" % nxt,
                      "  MaxLen = %d" % maxlen, "INVARIANT Exact", "CHECK_DEADLOCK FALSE"]) + "\n"


MC = {
    "crc_table": {"module": "MC_Crc16", "workers": 1, "cfg": "INIT Init\nNEXT Next\nINVARIANT TableOK\nCHECK_DEADLOCK FALSE\n"},
    # ---- decoder (MC_Decoder.tla over DecoderSM / Decoder) ----
    "sound_adv": {"module": "MC_Decoder",
                  "cfg": dec_cfg("TokADV", "FirstADV", q(5, 6), ["TypeOK", "Sound"])},
    "sound_rawcrc": {"module": "MC_Decoder",
                     "cfg": dec_cfg("TokRAWCRC", "FirstRAWCRC", q(9, 10), ["TypeOK", "Sound", "Tiles"])},
    "boundary_rawcrc": {"module": "MC_Decoder",
                        "cfg": dec_cfg("TokRAWCRC", "FirstRAWCRC", q(8, 9), ["BoundaryFresh", "IdleStepEq"])},
    "tiles_adv": {"module": "MC_Decoder",
                  "cfg": dec_cfg("TokADV", "FirstADV", q(4, 5), ["TypeOK", "Tiles"])},
    "total_hist": {"module": "MC_Decoder",
                   "cfg": dec_cfg("TokHIST", "FirstHIST", q(3, 4), ["TypeOK", "BoundaryFresh", "Tiles", "Sound"], caps="{0, 1, 2, 1073741824}")},
    "boundary_hist": {"module": "MC_Decoder",
                      "cfg": dec_cfg("TokHIST", "FirstHIST", q(3, 4), ["TypeOK", "BoundaryFresh", "IdleStepEq"], caps="{0, 1, 2, 1073741824}")},
    "tiles_hist": {"module": "MC_Decoder",
                   "cfg": dec_cfg("TokHIST", "FirstHIST", q(3, 4), ["Tiles"], caps="{0, 2, 1073741824}")},
    # deep random walks (TLC -simulate) beyond the exhaustive depth: 12 tokens incl. finalize / reset, five capacities
    "sim_hist": {"module": "MC_Decoder", "workers": 8, "simulate": True,
                 "extra": lambda tier: ["-simulate", "num=%d" % (400 if tier == "thorough" else 40), "-depth", "14"],
                 "cfg": dec_cfg("TokHIST", "FirstHIST", 12, ["TypeOK", "Sound", "Tiles", "BoundaryFresh", "IdleStepEq", "MatcherExact"], caps="{0, 1, 2, 5, 1073741824}")},
    "resync_noise": {"module": "MC_Decoder",
                     "cfg": dec_cfg("TokNOISE", "FirstNOISE", q(6, 8), ["TypeOK", "MatcherExact", "Resync", "Tiles"])},
    "resync_calls": {"module": "MC_Decoder",
                     "cfg": dec_cfg("TokNOISEH", "FirstNOISE", q(5, 6), ["TypeOK", "MatcherExact", "Resync", "Tiles", "BoundaryFresh"])},
    # refinement: every behaviour of the decoder specification is accepted by the user-level contract (Contract.tla)
    "contract_hist": {"module": "MC_Contract",
                      "cfg": dec_cfg("TokHIST", "FirstHIST", q(3, 4), ["Refines", "SameBoundary", "OpenAgrees", "ZeroCacheInv"], caps="{0, 1, 2, 1073741824}", spec="CSpec")},
    "contract_adv": {"module": "MC_Contract",
                     "cfg": dec_cfg("TokADV", "FirstADV", q(4, 5), ["Refines", "SameBoundary", "OpenAgrees", "ZeroCacheInv"], spec="CSpec")},
    "contract_rawcrc": {"module": "MC_Contract",
                        "cfg": dec_cfg("TokRAWCRC", "FirstRAWCRC", q(8, 9), ["Refines", "SameBoundary", "OpenAgrees", "ZeroCacheInv"], spec="CSpec")},
    "contract_noise": {"module": "MC_Contract",
                       "cfg": dec_cfg("TokNOISEH", "FirstNOISE", q(5, 6), ["Refines", "SameBoundary", "OpenAgrees", "ZeroCacheInv"], spec="CSpec")},
    "contract_pay": {"module": "MC_Contract",
                     "cfg": dec_cfg("TokPAY", "FirstPAY", 2, ["Refines", "SameBoundary", "OpenAgrees", "ZeroCacheInv"], paylen=q(4, 6), spec="CSpec")},
    "contract_cap": {"module": "MC_Contract",
                     "cfg": dec_cfg("TokCAP", "FirstCAP", 2, ["Refines", "SameBoundary", "OpenAgrees", "ZeroCacheInv"], caps=q("CapsQuick", "CapsThorough"), paylen=q(4, 6), spec="CSpec")},
    # deep random walks: 12 tokens incl. finalize / reset anywhere, five capacities, judged by the contract at every step
    "sim_contract": {"module": "MC_Contract", "workers": 8, "simulate": True,
                     "extra": lambda tier: ["-simulate", "num=%d" % (400 if tier == "thorough" else 40), "-depth", "14"],
                     "cfg": dec_cfg("TokHIST", "FirstHIST", 12, ["Refines", "SameBoundary", "OpenAgrees", "ZeroCacheInv"], caps="{0, 1, 2, 5, 1073741824}", spec="CSpec")},
    "contract_zeros": {"module": "MC_Contract",
                       "cfg": dec_cfg("TokZEROS", "FirstZEROS", q(7, 8), ["TypeOK", "Refines", "SameBoundary", "OpenAgrees", "ZeroCacheInv", "Sound", "Tiles", "CapRespect"], caps="{2, 5, 1073741824}", spec="CSpec")},
    "neg_contract_drop": {"module": "MC_Contract", "expect": "Refines",
                          "cfg": dec_cfg("TokNOISE", "FirstNOISE", 6, ["Refines"], fallback="drop", spec="CSpec")},
    "roundtrip_pay": {"module": "MC_Decoder",
                      "cfg": dec_cfg("TokPAY", "FirstPAY", 2, ["TypeOK", "RoundTrip", "NothingAfter", "Sound", "Tiles"], paylen=q(4, 6))},
    "capacity_pay": {"module": "MC_Decoder",
                     "cfg": dec_cfg("TokCAP", "FirstCAP", 2, ["TypeOK", "CapacityRule", "CapRespect", "Resync", "Tiles"],
                                    caps=q("CapsQuick", "CapsThorough"), paylen=q(4, 6))},
    "frame_rle": {"module": "MC_FrameRle", "workers": 1, "cfg": "INIT Init\nNEXT Next\nINVARIANT Agree\nCONSTANTS\n  PayBytes = {27, 0, 85, 1}\n  PayLen = 6\nCHECK_DEADLOCK FALSE\n"},
    "arraybuf": {"module": "MC_ArrayBuf",
                 "cfg": lambda tier: "SPECIFICATION Spec\nCONSTANTS\n  Caps = {0, 1, 2, 3}\n  ByteVals = {0, 1}\n  MaxOps = %d\n  MaxSlice = %d\n  EmitJson = FALSE\n"
                                     "INVARIANT Refines\nINVARIANT SameResult\nINVARIANT ViewOnly\nCHECK_DEADLOCK FALSE\n" % ((5, 2) if tier == "thorough" else (4, 2))},
    "reader_faults_1": {"module": "MC_Reader", "workers": 2, "cfg": lambda tier: reader_cfg(1, 2 if tier == "thorough" else 1, "io")},
    "reader_faults_2": {"module": "MC_Reader", "workers": 2, "cfg": lambda tier: reader_cfg(2, 2 if tier == "thorough" else 1, "io")},
    "reader_faults_3": {"module": "MC_Reader", "workers": 2, "cfg": lambda tier: reader_cfg(3, 2 if tier == "thorough" else 1, "io")},
    # the same schedules through the embedded-hal 0.2 serial source (no end of input, no Interrupted)
    "reader_faults_eh": {"module": "MC_Reader", "workers": 2, "cfg": lambda tier: reader_cfg(1, 2 if tier == "thorough" else 1, "eh")},
    # end to end on the specification: abstract files -> SmlEncode -> either transport encoder -> wire with noise -> reader loop -> both parsers
    "link_1": {"module": "MC_Link", "workers": 8, "cfg": link_cfg(1, "kmp")},
    "link_2": {"module": "MC_Link", "workers": 12, "cfg": link_cfg(2, "kmp")},
    "neg_link_drop": {"module": "MC_Link", "workers": 4, "expect": "LinkOK", "cfg": link_cfg(1, "drop")},
    "grammar": {"module": "MC_Grammar", "workers": 8,
                "cfg": lambda tier: grammar_cfg(mall="TRUE" if tier == "thorough" else "FALSE")},
    "neg_pending_keep": {"module": "MC_Grammar", "workers": 8, "expect": "Terminates", "cfg": grammar_cfg(poe="keep", invs=("Terminates",))},
    "neg_pending_32": {"module": "MC_Grammar", "workers": 8, "expect": "NoCountdownOverflow", "cfg": grammar_cfg(pw=32, invs=("NoCountdownOverflow",))},
    "tlf_exact": {"module": "MC_Tlf", "workers": 8,
                  "cfg": lambda tier: tlf_cfg("mul", "AllBytes", "AllBytes", 3) if tier == "thorough" else tlf_cfg("mul", "AllBytes", "SomeNext", 4)},
    "tlf_long": {"module": "MC_Tlf", "workers": 8, "cfg": tlf_cfg("mul", "SomeFirst", "FewNext", 12)},
    "neg_tlf_shl": {"module": "MC_Tlf", "workers": 8, "expect": "Exact", "cfg": tlf_cfg("shl", "SomeFirst", "FewNext", 12)},
    "encoders": {"module": "MC_Encoder",
                 "cfg": lambda tier: "SPECIFICATION Spec\nCONSTANTS\n  PayBytes = {27, 0, 85}\n  PayLen = %d\n  ExtraCalls = 3\n"
                                     "INVARIANT NoPanicArm\nINVARIANT IterPrefix\nINVARIANT IterComplete\nINVARIANT Fused\nINVARIANT PadCounter\n"
                                     "INVARIANT BufAgrees\nINVARIANT OomRule\nINVARIANT BufNoPartial\nPROPERTY Ends\nCHECK_DEADLOCK FALSE\n" % (7 if tier == "thorough" else 5)},
    # negative controls: the as-found constants must break the corresponding invariant
    "neg_matcher_drop": {"module": "MC_Decoder", "expect": "MatcherExact",
                         "cfg": dec_cfg("TokNOISE", "FirstNOISE", 6, ["MatcherExact"], fallback="drop")},
    "neg_realign_loose": {"module": "MC_Decoder", "expect": "Sound",
                          "cfg": dec_cfg("TokRAWCRC", "FirstRAWCRC", 9, ["Sound"], overrides=["RealignStrict <- RealignLoose"])},
    "neg_contract_realign_loose": {"module": "MC_Contract", "expect": "Refines",
                                   "cfg": dec_cfg("TokRAWCRC", "FirstRAWCRC", 9, ["Refines"], spec="CSpec", overrides=["RealignStrict <- RealignLoose"])},
    "neg_rawcrc_accepts": {"module": "MC_Decoder", "expect": "CrcTokenNeverAccepted",
                           "cfg": dec_cfg("TokRAWCRC", "FirstRAWCRC", 7, ["CrcTokenNeverAccepted"])},
    "neg_resync_drop": {"module": "MC_Decoder", "expect": "Resync",
                        "cfg": dec_cfg("TokNOISE", "FirstNOISE", 6, ["Resync"], fallback="drop")},
    "neg_capacity_drop": {"module": "MC_Decoder", "expect": "Resync",
                          "cfg": dec_cfg("TokCAP", "FirstCAP", 2, ["Resync"], caps="CapsNeg", paylen=5, fallback="drop")},
}

PROOFS = {
    # unbounded side-proofs with Apalache (inductive invariants), spec/proofs/*.tla
    "pad_counter": {"module": "PadCounter",
                    "claim": "for every payload length n the iterator encoder's 8-bit wrapping pad counter yields a pad count p <= 3 with (n + p) % 4 = 0",
                    "runs": [("base", ["--init=Init", "--inv=IndInv", "--length=0"]), ("step", ["--init=IndInit", "--inv=IndInv", "--length=1"])]},
    "pad_counter_tlaps": {"module": "PadCounterProof", "tool": "tlapm",
                          "claim": "TLAPS theorem Spec => []IndInv for the iterator encoder's wrapping 8-bit pad counter (same statement as pad_counter, proved deductively: 47 obligations, Z3 + PTL)"},
    "matcher": {"module": "Matcher",
                "claim": "after any number of noise bytes the repaired start-sequence matcher holds exactly the longest suffix that is a prefix of the start sequence, and ndisc + ninit = bytes since the boundary; "
                         "the matcher as found (drop) fails the induction step",
                "runs": [("base", ["--cinit=CInit", "--init=Init", "--inv=IndInv", "--length=0"]),
                         ("step", ["--cinit=CInit", "--init=IndInit", "--inv=IndInv", "--length=1"]),
                         ("step_as_found", ["--cinit=CInitDrop", "--init=IndInit", "--inv=IndInv", "--length=1"])],
                "expect_fail": ["step_as_found"]},
    "arraybuf_ref": {"module": "ArrayBufRef",
                     "claim": "after any number of push / extend_from_slice / truncate / clear / from_iter operations, for every capacity N <= 4, all byte values and all slice lengths, the view of the "
                              "array-with-stale-bytes representation equals the ideal bounded vector and both return the same result; a truncate that assigns min(k, N) fails the induction step",
                     "runs": [("base", ["--cinit=CInit", "--init=Init", "--inv=IndInv", "--length=0"]),
                              ("step", ["--cinit=CInit", "--init=IndInit", "--inv=IndInv", "--length=1"]),
                              ("step_truncate_set", ["--cinit=CInitSet", "--init=IndInit", "--inv=IndInv", "--length=1"])],
                     "expect_fail": ["step_truncate_set"]},
    "zero_cache": {"module": "ZeroCache",
                   "claim": "for every data length and capacity: inside a transmission zc = min(trailing zeros, 4) and buffer length + zc = data length; out-of-memory only when the bytes that had to be "
                            "stored exceed the capacity, leaving the decoder clean; an end sequence with pad count p <= 3 delivers exactly n - p bytes iff p <= trailing zeros and n - p <= cap; "
                            "keeping the zero cache across the out-of-memory reset, or withholding a fifth zero, fails the induction step",
                   "runs": [("base", ["--cinit=CInit", "--init=Init", "--inv=IndInv", "--length=0"]),
                            ("step", ["--cinit=CInit", "--init=IndInit", "--inv=IndInv", "--length=1"]),
                            ("step_phantom", ["--cinit=CInitPhantom", "--init=IndInit", "--inv=IndInv", "--length=1"]),
                            ("step_five", ["--cinit=CInitFive", "--init=IndInit", "--inv=IndInv", "--length=1"])],
                   "expect_fail": ["step_phantom", "step_five"]},
    "tlf_acc_tlaps": {"module": "TlfAccProof", "tool": "tlapm",
                      "claim": "TLAPS theorem Spec => []IndInv for the TLF length accumulator as repaired (checked_mul): for TLFs of any number of bytes the u32 accumulator equals the exact value "
                               "unless the overflow error was raised, which happens only for values that do not fit 32 bits (35 obligations, Z3 + PTL)"},
    "tlf_acc": {"module": "TlfAcc",
                "claim": "for a type-length field of any number of bytes the 32-bit accumulator equals the exact value of the concatenated 4-bit groups or the overflow error has been raised for a value that does not fit "
                         "32 bits, and the outcome (length / overflow / underflow after the own-size subtraction) equals the arbitrary-precision rule; checked_shl (as found, D3) and a 64-bit accumulator truncated at the "
                         "end (S9-C06) fail the induction step",
                "runs": [("base", ["--cinit=CInit", "--init=Init", "--inv=IndInv", "--length=0"]),
                         ("step", ["--cinit=CInit", "--init=IndInit", "--inv=IndInv", "--length=1"]),
                         ("step_as_found", ["--cinit=CInitShl", "--init=IndInit", "--inv=IndInv", "--length=1"]),
                         ("step_u64", ["--cinit=CInitU64", "--init=IndInit", "--inv=IndInv", "--length=1"])],
                "expect_fail": ["step_as_found", "step_u64"]},
    "stream_abs": {"module": "StreamAbs",
                   "claim": "for every input length n an abstraction of the streaming parser (every successful sub-parse consumes >= 1 byte, any sub-parse may fail) yields at most n + 1 items and nothing after "
                            "an error or None; with the countdown kept across an error (as found, D6) the induction step fails",
                   "runs": [("base", ["--cinit=CInit", "--init=Init", "--inv=IndInv", "--length=0"]),
                            ("step", ["--cinit=CInit", "--init=IndInit", "--inv=IndInv", "--length=1"]),
                            ("step_as_found", ["--cinit=CInitKeep", "--init=IndInit", "--inv=IndInv", "--length=1"]),
                            ("step_as_found_weak", ["--cinit=CInitKeep", "--init=IndInitWeak", "--inv=IndInvWeak", "--length=1"])],
                   "expect_fail": ["step_as_found", "step_as_found_weak"]},
}

GEN = {
    # TLC prints Encode(F, c) for every abstract file and every combination of encoding choices (binding B for C03)
    "grammar_files": {"module": "MC_Grammar", "workers": 4, "cfg": lambda tier: grammar_cfg(emit="TRUE", invs=("Emit",))},
    # TLC prints every maximal behaviour of MC_ArrayBuf as JSON (binding B for C18)
    "arraybuf_ops": {"module": "MC_ArrayBuf", "workers": 4,
                     "cfg": lambda tier: "SPECIFICATION Spec\nCONSTANTS\n  Caps = {0, 1, 2, 3}\n  ByteVals = {0, 1}\n  MaxOps = %d\n  MaxSlice = 2\n  EmitJson = TRUE\n"
                                         "INVARIANT Emit\nCHECK_DEADLOCK FALSE\n" % (4 if tier == "thorough" else 3)},
}

TRANSPORT_ASSUME = [
    "TLC (tla2tools 1.8.0) evaluates the TLA+ monitors correctly; Frame.Canonical and Crc16 are the independent definition of a transport-v1 frame",
    "the harness (harness/src) reports what the public API of the crate returned; stimuli are built by the harness' own frame builder, never by the code under test",
    "bounded: token alphabets and depths as listed under implementation_families / model_checking",
]

PARSER_ASSUME = [
    "TLC evaluates the TLA+ grammar (Tlf, SmlGrammar, StreamParser) correctly; that grammar is an independent reading of SML 1.04 restricted to the supported subset",
    "the harness prints parser results faithfully in the canonical JSON shape documented in spec/SmlGrammar.tla",
    "inputs are bounded by the listed families (real meter frames, generated files, their corruptions); lengths below 65536 bytes",
]


def P(rule):
    return {"rule": rule, "assumptions": PARSER_ASSUME}


def T(rule):
    return {"rule": rule, "assumptions": TRANSPORT_ASSUME}


PROPS = {
    "C01": dict(T("payload families PAY(k) over {1b,00,01,1a,55}, LEN (lengths around 2^8, 2^10, 2^13, 2^16), corpus and seeded random payloads; each encoded by "
                  "encode::<Vec>, encode::<ArrayBuf<N>>, encode_streaming and decoded by 11-14 front-end configurations; one record per (payload, frame); non-trivial = every record"),
                mc={"quick": ["roundtrip_pay", "contract_pay"], "thorough": ["roundtrip_pay", "contract_pay"]},
                steps=[{"cmd": "c01", "judge": "J_C01"}]),
    "C02": dict(T("every ok event of the real decoder front-ends (push, decode_streaming, SmlReader over iterator / io::Read) on ADV / INFRAME / RAWCRC (a matching checksum behind any body and behind damaged or misplaced escape sequences) / PADX / NEARSTART / HIST token trees, corpus dumps and "
                  "seeded mutations; a record is (payload, tail of the consumed prefix); distinct = distinct (prefix tail, payload) pairs; every record is an accepted frame; front-ends include small fixed capacities (1/4/6/9) and decoders built with from_buf on a non-empty buffer; CAPTAIL: prefix + lone 0x1b run / literal escape / zeros + a tail of 8..12 bytes, followed by a small frame, through every fixed capacity 0..|p|+1"),
                mc={"quick": ["sound_adv", "sound_rawcrc", "contract_adv", "contract_rawcrc"], "thorough": ["sound_adv", "sound_rawcrc", "contract_adv", "contract_rawcrc", "total_hist", "sim_hist"]},
                steps=[{"cmd": "c02", "judge": "J_C02"}]),
    "C05": dict(T("push/finalize/reset histories (HIST), INFRAME, NOISE, corpus, mutations on Decoder<Vec> and Decoder<ArrayBuf<N>> N in {0,1,2,3,8}, each followed by finalize + empty frame + finalize; "
                  "long runs (2^8, 2^16 +-1, 2^17+1) through all front-ends; overflow-checked build; distinct = distinct (capacity, event list); ALLOCFAIL: encode::<Vec<u8>>, Decoder<Vec<u8>>::push_byte and decode_streaming::<Vec<u8>> in a worker process whose allocator refuses every request above 1..512 bytes (outcome: correct result or OutOfMemory; a dead worker is an abort)"),
                mc={"quick": ["total_hist"], "thorough": ["total_hist", "boundary_hist", "sim_hist"]},
                steps=[{"cmd": "c05", "judge": "J_C05", "profile": "checked", "watchdog": {"quick": 600, "thorough": 5400}},
                       {"cmd": "c05", "judge": "J_Conf", "profile": "checked", "reuse": True, "drift": True}]),
    "C07": dict(T("same payload families as C01; both encoders compared with Frame.Canonical (the buffer encoder also fed through iterators with an inexact size_hint); both encoders also fed by a non-fused iterator that yields more bytes after its first None; ArrayBuf capacities around the frame length; 300 / 70000 extra next() calls after the iterator ended"),
                mc={"quick": ["encoders"], "thorough": ["encoders"]},
                proofs=["pad_counter", "pad_counter_tlaps"],
                steps=[{"cmd": "c07", "judge": "J_C07"}]),
    "C08": dict(T("14 idle histories (new, after ok / invalid message / invalid escape - also with error bytes ending in 0x1b -, after reset / finalize - also called while noise or a partial start sequence is pending) x all noise strings over {1b,01,55} up to length 7/9 + random noise over all byte values (incl. partial start sequences) x 5 payloads; seven histories ending in an out-of-memory error of ArrayBuf<8>; every cut point of 265+ frames "
                  "followed by 3 frames; noise runs of 2^16-1 / 2^16 / 70001 bytes (thorough: to 2^17) on a fresh decoder and behind a frame; the antecedent (no start sequence in noise / no escape in progress) is evaluated by the monitor"),
                mc={"quick": ["resync_noise", "resync_calls", "contract_noise"], "thorough": ["resync_noise", "resync_calls", "contract_noise"]},
                proofs=["matcher"],
                steps=[{"cmd": "c08", "judge": "J_C08"},
                       # the stream families of C17 (ADV / INFRAME / HIST / NOISE / corpus / mutations), judged as whole behaviours: at every
                       # boundary a valid frame is delivered and the noise before it reported (Contract mode "c08")
                       {"cmd": "c17", "judge": "J_ContractC08", "cfg": "JudgeN.cfg"}]),
    "C14": dict(T("for every boundary event (ok, oom, invalid message, invalid escape, finalize, reset) in HIST / HISTFRAME (17 idle histories incl. reset / finalize right after a start sequence, noise, frame) / INFRAME / PADX / history-prefixed ADV streams, corpus and mutations, and capacities "
                  "{growable,0,1,2,5}: events of the continuing decoder vs. a new decoder on the same continuation"),
                mc={"quick": ["boundary_hist", "boundary_rawcrc"], "thorough": ["boundary_hist", "boundary_rawcrc"]},
                steps=[{"cmd": "c14", "judge": "J_C14"}]),
    "C15": dict(T("every stream of ADV / INFRAME / PADX / NEARSTART / NOISE, corpus dumps, mutations and three transmissions with 2^16-1 .. 2^16+1 payload bytes through 11-14 front-end configurations (push, decode, decode_streaming, SmlReader x slice/iterator/io::Read x "
                  "Vec / ArrayBuf<N>=|s| / default); records are the grouped observations"),
                mc={"quick": ["reader_faults_1"], "thorough": ["reader_faults_1", "reader_faults_2", "reader_faults_3"]},
                steps=[{"cmd": "c15", "judge": "J_C15"}]),
    "C16": dict(T("payloads over {1b,00,55} up to length 6/8 + crafted tails + random, x every capacity 0..|m|+1 (<= 48), via Decoder<ArrayBuf<N>>, decode_streaming::<ArrayBuf<N>>, "
                  "SmlReader::with_static_buffer::<N>, each followed by an empty frame; 8 KiB default buffer with 8191/8192/8193-byte payloads; fixed buffers of 65535 / 65536 / 65537 / 65541 / 66000 bytes exactly full and overflowing (payloads of 65535 .. 70000 bytes)"),
                mc={"quick": ["capacity_pay", "contract_cap", "contract_zeros"], "thorough": ["capacity_pay", "contract_cap", "contract_zeros"]},
                proofs=["zero_cache"],
                steps=[{"cmd": "c16", "judge": "J_C16"}]),
    "C03": dict(P("valid files from the harness generator (all value types, integer widths 1-8, optional masks, multi-byte / non-minimal TLFs, list lengths across 15/16, both time encodings, "
                  "1-byte checksum fields) with the generator's intended content, plus the corpus payloads and their message-boundary truncations, and valid files with one octet string of 2^12 .. 2^17 (thorough: more lengths up to 2^17) bytes; judged against SmlGrammar.ParseFile"),
                mc={"quick": ["grammar"], "thorough": ["grammar"]},
                steps=[{"cmd": "c03", "judge": "J_C03", "cfg": "JudgeP.cfg", "tlcgen": "grammar_files"}]),
    "C04": dict(P("218 corpus payloads + generated files x (all truncations, extensions, single-byte substitutions - exhaustive at TLF bytes and for the smallest files -, element deletion / duplication / "
                  "arity change / arity aliases (+16 / +256 / +4096 / +65536 in longer TLFs) / replacement, declared-length bombs up to 33 TLF bytes, tails (transport end sequence, escapes, stray bytes) at every message boundary, random multi-byte edits and splices), each with and without recomputed message checksums; every accepted input of the structural "
                  "classes and a hash sample of accepted data corruptions are judged against SmlGrammar.ParseFile"),
                mc={"quick": ["grammar"], "thorough": ["grammar", "tlf_exact"]},
                steps=[{"cmd": "c04", "judge": "J_C04", "cfg": "JudgeP.cfg"}]),
    "C06": dict(P("declared-length bombs (2^k-1, 2^k for k in 4..32, and beyond 32 bits) at every TLF of every base file, structural edits and a sample of the other corruptions; each case run in a worker "
                  "process under a watchdog with a counting global allocator; type-length fields of 2^16 / 2^18 / 2^20 bytes; BOMBLIST: list responses declaring 2^20 / 2^28 / 2^32-1 entries followed by 0..300 valid entries (cut off or with trailer); LONGLIST: lists of thousands of entries (messages > 2^16 bytes); record = (|x|, outcomes, allocation count / largest / total)"),
                mc={"quick": ["grammar"], "thorough": ["grammar", "tlf_long"]},
                steps=[{"cmd": "c06", "judge": "J_C06", "cfg": "JudgeP.cfg"}]),
    "C09": dict(P("the same corruption families as C04; both real parsers on every input; records de-duplicated by (allocating result, event list)"),
                mc={"quick": ["grammar"], "thorough": ["grammar"]},
                steps=[{"cmd": "c09", "judge": "J_C09", "cfg": "JudgeP.cfg"}]),
    "C10": dict({"rule": "0-3 SML files (generated with every encoding choice, or real meter payloads; every third file with octet strings full of zeros / 1b1b1b1b / start and end look-alikes; every fourth input ending in a cut-off transmission) framed by the harness and separated by random noise (incl. noise ending in 0x1b runs or a partial start "
                         "sequence; optionally a near-frame - pad 4, pad without zeros, misaligned, wrong checksum, invalid escape - and more noise behind it), read through SmlReader over slice / iterator / io::Read with the default 8 KiB, ArrayBuf<N> and Vec buffers, with per-call choices of read vs next and of "
                         "DecodedBytes / File / Parser; each record also carries the hand composition decode_streaming + parse / Parser::new",
                 "assumptions": PARSER_ASSUME + TRANSPORT_ASSUME[:2]},
                mc={"quick": ["reader_faults_1", "link_1"], "thorough": ["reader_faults_1", "reader_faults_2", "reader_faults_3", "link_1", "link_2"]},
                steps=[{"cmd": "c10", "judge": "J_C10", "cfg": "JudgeP.cfg"}]),
    "C11": dict(T("4 base streams (noise, frames with withheld zeros / literal escapes / re-alignment / bad checksum, cut frame, partial start sequence) x end of input at every (third) position x one fault of "
                  "{would-block, interrupted, other} at every position x {next, read, next_nb, read_nb}; two faults exhaustively (thorough) or sampled; runs of 2..300 interrupted / would-block results at one position; random 2-4 fault schedules; corpus frames with random "
                  "schedules; each record carries the fault-free run and the fresh-reader run on the remainder"),
                mc={"quick": ["reader_faults_1", "reader_faults_2", "reader_faults_3", "reader_faults_eh"], "thorough": ["reader_faults_1", "reader_faults_2", "reader_faults_3", "reader_faults_eh"]},
                steps=[{"cmd": "c11", "judge": "J_C11"}]),
    "C12": dict(P("every 1- and 2-byte TLF, a strided (quick) / exhaustive (thorough) set of 3-byte TLFs, 2- and 3-byte TLFs followed by exactly the declared number of data bytes, crafted 4-12 byte TLFs around 2^32 and the own-size subtraction, 16-33 byte TLFs beyond 2^64, 17-300 byte TLFs with zero nibbles, integers of width 0-9 with "
                  "boundary leading bytes, the values 1 and 7 in every width and signedness, all boolean bytes - each at 13 field positions of a message template (incl. the tag and the value inside the time structure), observed through the streaming parser's events; valid files with octet strings of 2^16 .. 2^17 bytes"),
                mc={"quick": ["tlf_exact", "tlf_long"], "thorough": ["tlf_exact", "tlf_long", "grammar"]},
                proofs=["tlf_acc", "tlf_acc_tlaps"],
                steps=[{"cmd": "c12", "judge": "J_C12", "cfg": "JudgeP.cfg"}]),
    "C13": dict(P("the same corruption families as C04 plus LONGLIST (list responses whose message exceeds 2^16 / 2^17 bytes: 8/16/32-byte entries, declared length = / +1 / 2^20 / 2^32-1, complete and cut off); next() is called until None (at most |x|+8 items) and 5 more times; record = (|x|, items, items after the end, error positions)"),
                mc={"quick": ["grammar"], "thorough": ["grammar"]},
                proofs=["stream_abs"],
                steps=[{"cmd": "c13", "judge": "J_C13", "cfg": "JudgeP.cfg"}]),
    "C18": dict({"rule": "operation sequences over push / extend_from_slice / truncate / clear / from_iter: every maximal behaviour TLC generates from MC_ArrayBuf (replayed into the real type), the harness' own "
                         "exhaustive enumeration of depth 3 (4 in thorough) for N in 0..3 (and 4, Vec in thorough), random histories of up to 24 operations on N in {5,8,16,31,48,255,256} and Vec; truncate arguments up to 2^31-1 (incl. 2^8, 2^16 and 2^24 plus small offsets); BIG: N in {65536, 66000, 70000} filled across the 2^16 boundary (extend 65535 bytes, push, push, truncate, extend)",
                 "assumptions": ["TLC evaluates ArrayBuf.IdealObs correctly", "std's Debug for slices is the reference for the Debug clause", "capacities limited to the ArrayBuf<N> instantiations compiled into the harness"]},
                mc={"quick": ["arraybuf"], "thorough": ["arraybuf"]},
                proofs=["arraybuf_ref"],
                steps=[{"cmd": "c18", "judge": "J_C18", "tlcgen": "arraybuf_ops"}]),
    "C17": dict(T("every stream of ADV / INFRAME / PADX / NEARSTART / HIST / HISTFRAME / NOISE, corpus, mutations with push+finalize (growable buffer and fixed capacities 1/4/6/9) and SmlReader (iterator, io::Read, io::Read with an injected I/O error or would-block inside the stream); noise runs of 255..2^17+1 bytes; "
                  "both the overflow-checked and the wrapping (release) build; record = (length, event list)"),
                mc={"quick": ["tiles_adv", "tiles_hist", "contract_hist"], "thorough": ["tiles_adv", "tiles_hist", "contract_hist", "sim_contract", "resync_noise"]},
                proofs=["matcher"],
                steps=[{"cmd": "c17", "judge": "J_C17", "profile": "wrapping"}, {"cmd": "c17", "judge": "J_C17", "profile": "checked"},
                       {"cmd": "c17", "judge": "J_ContractC17", "profile": "checked", "cfg": "JudgeN.cfg", "reuse": True}]),
}

NOT_APPLICABLE = {}

_NOTE_TR = ("Trusted: TLC and the TLA+ definitions Frame.Canonical / Crc16 (checked against the CRC catalogue value and the repository's documented frame), "
            "the harness' reporting of API results, bounded token alphabets/depths; payload content beyond the byte classes is covered by corpus and random payloads only.")


def _t(level, ref, technique, note=_NOTE_TR):
    return {"level": level, "ref": ref, "technique": technique, "note": note}


_NOTE_P = ("Trusted: TLC and the TLA+ grammar modules Tlf / SmlGrammar / StreamParser (an independent reading of SML 1.04 for the supported subset, validated against 218 real meter payloads and "
           "~4000 generated files with zero disagreement on the repaired tree), the harness' canonical dump of parser results; inputs shorter than 65536 bytes.")

MANIFEST_TEXT = {
    "C03": _t("TLC judges, for ~4000 generated files covering every value type / integer width / optional mask / multi-byte and non-minimal TLF / list length across 15-16 / time encoding, and for the real "
              "meter payloads, that SmlGrammar.ParseFile accepts the bytes with the generator's intended content and that both real parsers return exactly that content.", "5/C03",
              "TLC-judged trace validation against the TLA+ grammar (J_C03)", _NOTE_P),
    "C04": _t("TLC re-parses every input the real parsers accepted (from ~1.3-1.8 M systematic and random corruptions of valid files, with and without recomputed checksums) with the independent TLA+ grammar "
              "and requires acceptance with identical content.", "5/C04", "TLC-judged trace validation against the TLA+ grammar (J_C04)", _NOTE_P),
    "C06": _t("Every case runs in a worker process under a watchdog with a counting global allocator (overflow-checked build); TLC judges outcome in {value, error} for both parsers, largest and total "
              "allocation request <= 256*|x|+4096 (x4 for the total) and zero allocations in the streaming parser, over declared-length bombs at every TLF position and structural corruptions.", "5/C06",
              "fault/length-bomb enumeration in worker processes + TLC-judged resource monitor (J_C06)", _NOTE_P),
    "C09": _t("TLC re-assembles the recorded events of the real streaming parser with the spec's Reassemble operator (which also enforces the event grammar) and compares with the real allocating parser's "
              "result and error kind, on the corruption families.", "5/C09", "TLC-judged differential trace validation (J_C09)", _NOTE_P),
    "C10": _t("TLC recomputes the transmission layout from the files and noise (Frame.Canonical), the expected value of every call (payload / SmlGrammar.ParseFile / StreamParser.StreamItems of the file), the "
              "discarded-bytes reports and the end-of-input behaviour, and compares them and the hand composition with what the real SmlReader returned for 3 sources x 3 buffer kinds x per-call target choices; "
              "the reader loop itself is model-checked under fault schedules (MC_Reader).", "5/C10", "TLC model checking of the reader spec and of the end-to-end link spec (MC_Link: files -> SmlEncode -> encoders -> noisy wire -> reader -> both parsers) + TLC-judged end-to-end trace validation (J_C10)", _NOTE_P),
    "C11": _t("TLC checks the clauses of FaultRule (transparency of would-block/interrupted, exactly-once would-block, exact count and fresh-reader continuation after other errors, None rule, byte accounting) on "
              "the specification's reader for every placement of up to 1 (quick) / 2 (thorough) faults and every cut of 3 base streams, and judges the same clauses on ~23 k recorded schedules of the real "
              "SmlReader over a fault-injecting io::Read for all four APIs.", "5/C11", "TLC model checking under fault schedules + TLC-judged trace validation (J_C11)"),
    "C12": _t("TLC compares the real streaming parser's events on ~626 k crafted messages (all 1- and 2-byte TLFs, 3-byte TLFs, 4-12 byte TLFs around 2^32, integers of every width with boundary leading bytes, "
              "all boolean bytes, at 8 field positions) with the spec's StreamItems, whose 32-bit TLF machine is itself checked against an arbitrary-precision rule.", "5/C12",
              "TLC-judged trace validation against the TLA+ TLF/primitive rules (J_C12)", _NOTE_P),
    "C13": _t("TLC judges (|x|, items, items after the end, error positions) of the real iterator on the corruption families: at most |x|+1 items, at most one error and it is last, then None for 5 further calls.",
              "5/C13", "TLC model checking (Terminates on MC_Grammar) + Apalache inductive side-proof of the item bound (unbounded input length, abstraction) + TLC-judged trace validation (J_C13)", _NOTE_P),
    "C01": _t("TLC checks RoundTrip/NothingAfter on the Decoder+Encoder spec for all payloads up to the bound, and judges observations of the real encoders x 11-14 decoder front-ends on ~20k payloads "
              "(exhaustive small alphabet, lengths across 2^8/2^10/2^13/2^16, corpus, random) with the monitor J_C01.", "5/C01", "TLC model checking + TLC-judged trace validation (J_C01)"),
    "C02": _t("TLC checks Sound (IsSuffix(Canonical(m), stream)) on the decoder spec over adversarial token trees with attacker-recomputed checksums, and judges every ok event the real front-ends "
              "produced on the mirrored token trees, corpus and mutations against the independent frame definition.", "5/C02", "TLC model checking + TLC-judged trace validation (J_C02)"),
    "C05": _t("TLC checks TypeOK/BoundaryFresh of the decoder spec under every interleaving of push/finalize/reset with capacities {0,1,2,inf} and the encoder spec never reaching its assert arms; "
              "traces of the overflow-checked real build (panics recorded as events) are judged for absence of panic/runaway and for usability after every history.", "5/C05", "TLC model checking + TLC-judged trace validation (J_C05)"),
    "C07": _t("TLC checks both encoder state machines against Frame.Canonical (prefix, completeness, fusedness, pad counter, OOM iff capacity < frame length, termination under WF) and judges the real "
              "encoders' output for ~20k payloads, long ones in run-length form.", "5/C07", "TLC model checking (incl. liveness) + Apalache inductive side-proof and TLAPS proof of the pad counter + TLC-judged trace validation (J_C07)"),
    "C08": _t("TLC checks MatcherExact and Resync on the decoder spec over noise/frames from every idle history, and judges the real decoder on all noise strings over {1b,01,55} up to the bound, random noise "
              "and every cut point of 265+ frames; the antecedent is evaluated by the monitor with the spec's own decoder.", "5/C08", "TLC model checking + Apalache inductive side-proof of the start matcher (unbounded noise) + TLC-judged trace validation (J_C08)"),
    "C14": _t("TLC checks BoundaryFresh and IdleStepEq (an idle spec decoder is state-equal to a new one and answers every byte identically) and judges, for every boundary in the recorded streams, "
              "continuation-vs-fresh equality of the real decoder for 5 buffer configurations.", "5/C14", "TLC model checking + TLC-judged differential trace validation (J_C14)"),
    "C15": _t("TLC checks LoopsAgree (push+finalize, decode(), DecoderReader::next agree modulo Events.Norm) on the specification's three driving loops for every cut of the base streams, and judges the grouped observations of 11-14 real front-end configurations per stream with the normalisation the property allows (Events.Norm).", "5/C15", "TLC model checking of the front-end loops + TLC-judged differential trace validation (J_C15)"),
    "C16": _t("TLC checks CapacityRule/CapRespect/Resync on the decoder spec for every capacity 0..|m|+1 and judges the real fixed-buffer front-ends for every capacity 0..|m|+1 (exhaustive to 48) plus the 8 KiB default.",
              "5/C16", "TLC model checking + TLC-judged trace validation (J_C16)"),
    "C18": _t("TLC checks that the array-with-stale-bytes representation refines the ideal bounded vector over all operation sequences up to the bound (Refines, SameResult, ViewOnly); every maximal "
              "behaviour TLC generates is replayed into the real ArrayBuf<N> and, with the harness' own exhaustive and random histories, judged against ArrayBuf.IdealObs.", "5/C18",
              "TLC model checking (refinement) + Apalache inductive side-proof of the refinement (unbounded histories, N <= 4) + TLC-generated behaviours replayed into the code + TLC-judged trace validation (J_C18)",
              "Trusted: TLC, ArrayBuf.tla's ideal vector, std slice Debug; capacities limited to the instantiations compiled into the harness."),
    "C17": _t("TLC checks the Tiles ghost invariant on the decoder spec (ADV, HIST with small capacities, NOISE) and judges the event lists of the real decoder/reader in both the overflow-checked and the wrapping build, "
              "including noise runs beyond 2^16.", "5/C17", "TLC model checking + Apalache inductive side-proof (ndisc + ninit = bytes since boundary, unbounded) + TLC-judged trace validation (J_C17)"),
}
