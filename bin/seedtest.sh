#!/bin/bash
# usage: seedtest.sh <worktree-suffix> <seed-id> <property> [more properties to check...]
# 1. confirms in the scratch worktree /tmp/mut<sfx>: existing suite passes with the change, demo fails with it and passes without
# 2. applies /tmp/mut<sfx>.patch to /repo, runs the quick checks of the given properties, undoes the patch
# 3. stores patch, demo and results under /verif/seeded/<seed-id>/
sfx=$1; sid=$2; shift 2; props="$@"
wt=/tmp/$sfx; patch=/tmp/$sfx.patch; demo=$(ls $wt/tests/demo*_c*.rs 2>/dev/null | head -1)
out=/verif/seeded/$sid; mkdir -p $out
[ -s $patch ] || { echo "no patch $patch"; exit 2; }
cp $patch $out/patch.diff; [ -n "$demo" ] && cp $demo $out/$(basename $demo)
dn=$(basename $demo .rs)
cd $wt
echo "== suite with change (excluding demo)"; s1=$(cargo test --workspace --offline --no-fail-fast 2>&1 | grep -E '^test result' | grep -v ' 0 passed; 0 failed' ); echo "$s1"
echo "== demo with change"; cargo test --offline --test $dn 2>&1 | grep -E '^test result|^test .* (FAILED|ok)$' | tee $out/demo_with_change.txt
git apply -R $patch
echo "== demo without change"; cargo test --offline --test $dn 2>&1 | grep -E '^test result|^test .* (FAILED|ok)$' | tee $out/demo_without_change.txt
git apply $patch
cd /repo && git apply $patch || { echo "patch does not apply to /repo"; exit 2; }
cd /verif
for p in $props; do
  echo "== vf check $p (quick) with the change applied to /repo"
  timeout 1500 bin/vf check $p --tier quick > $out/check_$p.log 2>&1; rc=$?
  echo "rc=$rc"; grep -E 'VIOLATION|TOOL-ERROR|held|VIOLATED' $out/check_$p.log | head -4
  echo "{\"property\":\"$p\",\"exit\":$rc}" >> $out/results.jsonl
done
git -C /repo checkout -- . ; git -C /repo status --short | head -3
find /verif/replays -name '*.json' -newer $out/patch.diff | head -3 | while read f; do cp $f $out/; done
find /verif/replays -name '*.json' -delete
git -C /verif checkout -- evidence 2>/dev/null
