#!/bin/bash
# usage: seedlane.sh <lane-dir> <worktree-suffix> <seed-id> <property> [more properties...]
# Like seedtest.sh, but the checks run in a private lane (<lane>/repo = copy of /repo with the change applied,
# <lane>/verif = copy of the current /verif working tree with the harness' path dependency pointing at <lane>/repo),
# so that /repo and /verif stay free for other work.  Same confirmation steps, same files under /verif/seeded/<seed-id>/.
lane=$1; sfx=$2; sid=$3; shift 3; props="$@"
wt=/tmp/$sfx; patch=/tmp/$sfx.patch; demo=$(ls $wt/tests/demo*_c*.rs 2>/dev/null | head -1)
out=/verif/seeded/$sid; mkdir -p $out $lane
[ -s $patch ] || { echo "no patch $patch"; exit 2; }
cp $patch $out/patch.diff; [ -n "$demo" ] && cp $demo $out/$(basename $demo)
dn=$(basename $demo .rs)
cd $wt
echo "== suite with change (excluding demo)"; s1=$(cargo test --workspace --offline --no-fail-fast 2>&1 | grep -E '^test result' | grep -v ' 0 passed; 0 failed' ); echo "$s1"
echo "== demo with change"; cargo test --offline --test $dn 2>&1 | grep -E '^test result|^test .* (FAILED|ok)$' | tee $out/demo_with_change.txt
git apply -R $patch
echo "== demo without change"; cargo test --offline --test $dn 2>&1 | grep -E '^test result|^test .* (FAILED|ok)$' | tee $out/demo_without_change.txt
git apply $patch
mkdir -p $lane/repo && find $lane/repo -mindepth 1 -maxdepth 1 ! -name target -exec rm -rf {} + && git -C /repo archive HEAD | tar -x -C $lane/repo   # committed state of /repo (its working tree may be in use by another seed run)
rsync -a --delete --exclude work --exclude .git --exclude 'harness/target*' --exclude replays --exclude seeded /verif/ $lane/verif/
sed -i "s#path = \"/repo\"#path = \"$lane/repo\"#" $lane/verif/harness/Cargo.toml
sed -i "s#\"/repo/tests/libsml-testing\"#\"$lane/repo/tests/libsml-testing\"#" $lane/verif/harness/src/common.rs
find $lane/repo/src -type f -exec touch {} +   # git archive restores commit-time mtimes: cargo would keep a stale build
(cd $lane/repo && patch -s -p1 < $patch) || { echo "patch does not apply"; exit 2; }
cd $lane/verif
for p in $props; do
  echo "== vf check $p (quick) with the change applied to $lane/repo"
  timeout 1500 bin/vf check $p --tier quick > $out/check_$p.log 2>&1; rc=$?
  echo "rc=$rc"; grep -E 'VIOLATION|TOOL-ERROR|held|VIOLATED' $out/check_$p.log | head -4
  echo "{\"property\":\"$p\",\"exit\":$rc}" >> $out/results.jsonl
done
find $lane/verif/replays -name '*.json' 2>/dev/null | head -3 | while read f; do cp $f $out/; done
rm -rf $lane/verif/replays
mkdir -p $lane/repo && find $lane/repo -mindepth 1 -maxdepth 1 ! -name target -exec rm -rf {} + && git -C /repo archive HEAD | tar -x -C $lane/repo   # committed state of /repo (its working tree may be in use by another seed run)
