#!/usr/bin/env python3
"""summarise a mutsurvey run: surveysum.py <lane>/survey.jsonl <outdir>"""
import sys, json, collections, os
src, out = sys.argv[1], sys.argv[2]
recs = [json.loads(l) for l in open(src)]
os.makedirs(out, exist_ok=True)
with open(os.path.join(out, "survey.jsonl"), "w") as f:
    for r in recs:
        r.pop("tool_errors", None)
        f.write(json.dumps(r) + "\n")
passing = [r for r in recs if r["suite"] == "passes"]
by = collections.Counter(r.get("caught_by") for r in passing if r["verdict"] == "caught")
summ = {"candidates_tried": len(recs), "killed_by_the_crates_own_suite": len(recs) - len(passing), "passing_the_suite": len(passing),
        "caught_by_a_quick_check": sum(by.values()), "first_check_that_caught": dict(sorted(by.items())),
        "survived": [{k: r[k] for k in ("file", "line", "before", "after")} for r in passing if r["verdict"] == "survived"],
        "note": "checks were tried in a fixed order per file and stopped at the first violation; survivors are analysed in DESIGN.md section 7.1"}
json.dump(summ, open(os.path.join(out, "summary.json"), "w"), indent=1)
print(json.dumps({k: v for k, v in summ.items() if k != "survived"}), len(summ["survived"]))
