#!/usr/bin/env python3
"""Regenerates MANIFEST.json from bin/vfconf.py (property table) and the texts below."""
import json, os, sys
ROOT = os.path.dirname(os.path.dirname(os.path.abspath(__file__)))
sys.path.insert(0, os.path.join(ROOT, "bin"))
import vfconf

ALL = ["C%02d" % i for i in range(1, 19)]
TEXT = vfconf.MANIFEST_TEXT
checks = []
for pid in ALL:
    if pid not in vfconf.PROPS:
        continue
    t = TEXT[pid]
    checks.append({
        "property_id": pid,
        "quick_cmd": "bin/vf check %s --tier quick" % pid,
        "thorough_cmd": "bin/vf check %s --tier thorough" % pid,
        "evidence_file": "/verif/evidence/%s.json" % pid,
        "replay_cmd_template": "bin/vf replay %s {path}" % pid,
        "engine": "tlc",
        "level_claimed": {"category": "model_checking", "text": t["level"], "design_ref": t["ref"]},
        "level_note": t["note"],
        "technique": t["technique"],
    })
na = [{"property_id": p, "reason": vfconf.NOT_APPLICABLE.get(p, "check not built yet (work in progress)")} for p in ALL if p not in vfconf.PROPS]
m = {
    "version": 1,
    "setup_cmd": "bin/vf setup",
    "hooks": {"guard": "sml_rs_verif", "enable": "no hooks are needed: the library is sequential and its public API exposes every observable the properties mention; the harness builds /repo as a path dependency (features std,alloc,nb)",
              "baseline_off_cmd": "cd /repo && cargo test --workspace --no-fail-fast --offline", "source_commits": [], "add_only": True},
    "engines": [
        {"name": "tlc", "path": "spec/", "serves_properties": [c["property_id"] for c in checks],
         "kind_free_text": "explicit TLA+ specification (spec/*.tla) checked with TLC: bounded exhaustive model checking of the design, and TLC-judged validation of observation traces recorded from the real crate by harness/ (Rust)"},
    ],
    "checks": checks,
    "not_applicable": na,
    "notes": "Exit codes of bin/vf: 0 held, 1 VIOLATION (monitor rejected a recorded trace of the real code), 2 tool error. See DESIGN.md.",
}
json.dump(m, open(os.path.join(ROOT, "MANIFEST.json"), "w"), indent=1)
print("wrote MANIFEST.json with %d checks, %d not_applicable" % (len(checks), len(na)))
