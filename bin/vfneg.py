"""Negative controls (anti-vacuity), run by `vf setup` and by thorough checks.

 (i)  binding controls: take records the harness produced from the real crate, corrupt one judged field of one
      record, and require the TLC judge to reject exactly that record;
 (ii) spec controls: model-check the spec with the "as found" constants (vfconf.MC entries with `expect`) and
      require TLC to produce the corresponding counterexample.
A control that is accepted is a tool error: the binding would be vacuous.
"""
import json, os


def _first(recs, pred):
    for i, r in enumerate(recs):
        if pred(r):
            return i
    return None


def c_c02(recs):
    i = _first(recs, lambda r: len(r["m"]) > 0)
    if i is None:
        return None
    recs[i]["m"][0] ^= 1
    return i


def c_c14(recs):
    i = _first(recs, lambda r: len(r["cont"]) > 0)
    if i is None:
        return None
    recs[i]["cont"][-1][0] += 1
    return i


def c_c01(recs):
    i = _first(recs, lambda r: len(r["p"]) > 0 and r["kind"] == 0)
    if i is None:
        return None
    recs[i]["p"][-1] ^= 1
    return i


def c_c07(recs):
    i = _first(recs, lambda r: len(r["caps"]) > 2)
    if i is None:
        return None
    recs[i]["encs"][0]["b"][-1] ^= 1
    return i


def c_c15(recs):
    i = _first(recs, lambda r: len(r["obs"]) >= 2 and len(r["obs"][1]["e"]) > 0)
    if i is None:
        return None
    e = recs[i]["obs"][1]["e"]
    for ev in e:
        if ev[1] in (1, 2, 3, 4, 5, 9):
            ev[1] = 3 if ev[1] != 3 else 5
            ev[:] = ev[:2] + ([1, 2, 3, 4] if ev[1] == 5 else [])
            return i
    return None


def c_c17(recs):
    i = _first(recs, lambda r: any(e[1] == 2 for e in r["e"]))
    if i is None:
        return None
    for e in recs[i]["e"]:
        if e[1] == 2:
            e[2] += 1
            return i


def c_c16(recs):
    i = _first(recs, lambda r: r["cap"] < len(r["m"]) and any(e[1] == 3 for e in r["e"]))
    if i is None:
        return None
    recs[i]["e"] = [e for e in recs[i]["e"] if e[1] != 3]
    return i


def c_c08(recs):
    i = _first(recs, lambda r: r["kind"] == 1 and r["fe"] == 1 and len(r["g"]) > 0 and len(r["e"]) == 3 and r["e"][0][1] == 2)
    if i is None:
        return None
    recs[i]["e"][0][2] += 1
    return i


def c_c05(recs):
    i = _first(recs, lambda r: r["cap"] >= -1 and len(r["e"]) > 3)
    if i is None:
        return None
    recs[i]["e"][0] = [recs[i]["e"][0][0], 8]
    return i


def c_c03(recs):
    i = _first(recs, lambda r: r["f"] and r["c"][0] == 1 and len(r["x"]) > 30)
    if i is None:
        return None
    recs[i]["c"] = [0, 5, 0]          # pretend the allocating parser rejected a well-formed file
    return i


def c_c04(recs):
    i = _first(recs, lambda r: r["c"][0] == 1 and len(r["c"][1]) > 0)
    if i is None:
        return None
    recs[i]["c"][1][0][1] ^= 1        # group_no of the first message differs from what the bytes say
    return i


def c_c06(recs):
    i = _first(recs, lambda r: r["co"] in (0, 1))
    if i is None:
        return None
    recs[i]["a"][1] = 256 * recs[i]["n"] + 4096 + 1
    return i


def c_c09(recs):
    i = _first(recs, lambda r: r["c"][0] == 1 and len(r["ev"]) >= 2)
    if i is None:
        return None
    recs[i]["ev"] = recs[i]["ev"][:-1]  # streaming parser lost its last event
    return i


def c_c10(recs):
    i = _first(recs, lambda r: len(r["files"]) >= 1 and any(x[1] == 1 for x in r["res"]))
    if i is None:
        return None
    for x in recs[i]["res"]:
        if x[1] == 1 and x[0] == 0 and x[2]:
            x[2][0] ^= 1
            return i
    for x in recs[i]["res"]:
        if x[1] == 0:
            x[2][-1] += 1
            return i
    return None


def c_c11(recs):
    i = _first(recs, lambda r: any(e[1] == 9 and e[2] == 2 for e in r["res"]))
    if i is None:
        return None
    for e in recs[i]["res"]:
        if e[1] == 9 and e[2] == 2:
            e[3] += 1
            return i


def c_c12(recs):
    i = _first(recs, lambda r: r["c"][0] == 0)
    if i is None:
        return None
    recs[i]["c"] = [1, []]            # pretend the allocating parser accepted what the TLF rules reject
    return i


def c_c13(recs):
    i = _first(recs, lambda r: r["after"] == 0)
    if i is None:
        return None
    recs[i]["after"] = 1
    return i


def c_c18(recs):
    i = _first(recs, lambda r: len(r["obs"]) >= 1)
    if i is None:
        return None
    recs[i]["obs"][-1][0] ^= 1        # ok <-> out-of-memory
    return i


CFG = {"C03": "JudgeP.cfg", "C04": "JudgeP.cfg", "C06": "JudgeP.cfg", "C09": "JudgeP.cfg", "C10": "JudgeP.cfg", "C12": "JudgeP.cfg", "C13": "JudgeP.cfg"}

CONTROLS = {
    # property: (harness cmd, judge module, corruption)
    "C01": ("c01", "J_C01", c_c01),
    "C02": ("c02", "J_C02", c_c02),
    "C05": ("c05", "J_C05", c_c05),
    "C07": ("c07", "J_C07", c_c07),
    "C08": ("c08", "J_C08", c_c08),
    "C14": ("c14", "J_C14", c_c14),
    "C15": ("c15", "J_C15", c_c15),
    "C16": ("c16", "J_C16", c_c16),
    "C17": ("c17", "J_C17", c_c17),
    "C03": ("c03", "J_C03", c_c03),
    "C04": ("c04", "J_C04", c_c04),
    "C06": ("c06", "J_C06", c_c06),
    "C09": ("c09", "J_C09", c_c09),
    "C10": ("c10", "J_C10", c_c10),
    "C11": ("c11", "J_C11", c_c11),
    "C12": ("c12", "J_C12", c_c12),
    "C13": ("c13", "J_C13", c_c13),
    "C18": ("c18", "J_C18", c_c18),
}

SPEC_CONTROLS = ["crc_table", "frame_rle", "neg_matcher_drop", "neg_resync_drop", "neg_rawcrc_accepts", "neg_realign_loose", "neg_contract_realign_loose", "neg_capacity_drop", "neg_contract_drop", "neg_link_drop", "neg_tlf_shl", "neg_pending_keep", "neg_pending_32"]


def binding_control(vf, pid, nd_path=None):
    cmd, judge, corrupt = CONTROLS[pid]
    if nd_path is None or not os.path.exists(nd_path):
        binary, _ = vf.build("checked")
        nd_path = os.path.join(vf.WORK, "neg-%s.ndjson" % cmd)
        vf.run_harness(binary, [cmd, "quick"], nd_path, extra_env={"VF_LIMIT": "4000"})
    lines = open(nd_path).read().splitlines()
    n = len(lines)
    pick = lines[:150] + lines[n // 2: n // 2 + 150] + lines[-150:]
    recs = [json.loads(l) for l in pick]
    p0 = os.path.join(vf.WORK, "neg-%s-base.ndjson" % pid)
    open(p0, "w").write("\n".join(pick) + "\n")
    base, _ = vf.judge(judge, p0, "negb-" + pid, cfg=CFG.get(pid, "Judge.cfg"))
    recs = [r for k, r in enumerate(recs) if (k + 1) not in base]   # controls are relative to what the tree does now
    idx = corrupt(recs)
    if idx is None:
        raise vf.ToolError("negative control %s: no record suitable for corruption" % pid)
    p = os.path.join(vf.WORK, "neg-%s-corrupt.ndjson" % pid)
    with open(p, "w") as f:
        for r in recs:
            f.write(json.dumps(r, separators=(",", ":")) + "\n")
    rejected, st = vf.judge(judge, p, "neg-" + pid, cfg=CFG.get(pid, "Judge.cfg"))
    if rejected != [idx + 1]:
        raise vf.ToolError("negative control %s: corrupted record %d, judge rejected %s" % (pid, idx + 1, rejected[:10]))
    return {"control": "corrupt-one-field", "property": pid, "records": len(recs), "rejected_exactly": idx + 1}


def run_controls(vf, props=None, spec=True):
    res = []
    for pid in (props or sorted(CONTROLS)):
        if pid in CONTROLS:
            res.append(binding_control(vf, pid))
            vf.log("negative control %s: corrupted record rejected, all others accepted" % pid)
    if spec:
        for name in SPEC_CONTROLS:
            st = vf.run_mc(name, "quick")
            res.append(st)
            vf.log("spec control %-20s %s" % (name, "counterexample found: " + str(st["violated"]) if st["violated"] else "passed"))
    return res
