#!/usr/bin/env python3
"""mutsurvey - mechanical mutation survey of the checks (complements the hand-written seeded changes, DESIGN section 7.1).

  mutsurvey.py gen  <repo>                 list candidate one-token mutants of <repo>/src (non-test, non-fmt code) as JSON lines
  mutsurvey.py run  <lane> <max> [seed]    <lane>/repo and <lane>/verif are private copies (harness path dep rewritten to
                                           <lane>/repo); for each sampled mutant: apply, run the crate's own suite; if it
                                           still passes run the quick checks relevant to the file until one reports a
                                           VIOLATION; undo.  Results: <lane>/survey.jsonl

Never touches /repo or /verif.  A surviving mutant is either equivalent with respect to the 18 properties or a gap.
"""
import sys, os, re, json, random, subprocess, time

CHECKS = {
    "src/transport/decode.rs": ["C17", "C14", "C02", "C08", "C16", "C01", "C15", "C05", "C11", "C10"],
    "src/transport/encode.rs": ["C07", "C01", "C05"],
    "src/transport/decoder_reader.rs": ["C11", "C15", "C17", "C10", "C05"],
    "src/util.rs": ["C18", "C11", "C15", "C16", "C10", "C01"],
    "src/lib.rs": ["C10", "C15", "C11"],
    "src/parser/tlf.rs": ["C12", "C04", "C03", "C09", "C06", "C13"],
    "src/parser/num.rs": ["C12", "C03", "C04", "C09", "C06"],
    "src/parser/octet_string.rs": ["C12", "C03", "C04", "C09", "C06"],
    "src/parser/common.rs": ["C04", "C03", "C12", "C09", "C06", "C13"],
    "src/parser/complete.rs": ["C09", "C04", "C03", "C06", "C12"],
    "src/parser/streaming.rs": ["C09", "C13", "C04", "C12", "C06", "C03"],
    "src/parser/mod.rs": ["C04", "C03", "C12", "C09", "C13"],
}

REL = [("<=", "<"), (">=", ">"), ("==", "!="), ("!=", "=="), (" < ", " <= "), (" > ", " >= "), ("&&", "||"), ("||", "&&")]
ARI = [(" + ", " - "), (" - ", " + "), ("+= 1", "+= 2"), ("-= 1", "-= 2"), (" % 4", " % 8"), ("checked_mul", "wrapping_mul"),
       ("checked_sub", "wrapping_sub"), ("checked_add", "wrapping_add"), ("saturating_sub", "wrapping_sub")]
CONST = [(r"\b0\b", "1"), (r"\b1\b", "0"), (r"\b2\b", "3"), (r"\b3\b", "2"), (r"\b3\b", "4"), (r"\b4\b", "3"), (r"\b4\b", "5"),
         (r"\b8\b", "7"), (r"\b16\b", "15"), (r"\b0x1b\b", "0x1a"), (r"\b0x1a\b", "0x1b"), (r"\b0x01\b", "0x02"),
         (r"\b0x0F\b", "0x1F"), (r"\b0x70\b", "0x60"), (r"\b0x80\b", "0x40"), (r"\bu8\b", "u16"), (r"\bu32\b", "u64")]
DEL = re.compile(r"^\s*(self\.[a-z_\.]+\s*(=|\+=|-=)[^=].*;|self\.(reset|flush|set_done)\(.*\);|buf\.clear\(\);|self\.buf\.clear\(\);|"
                 r"\*?[a-z_]+\s*(\+=|-=)\s*.*;)\s*$")


def code_lines(path):
    """yield (lineno, text) of lines that are library code: not tests, not comments, not fmt impls, not attributes"""
    lines = open(path).read().split("\n")
    skip_indent = None
    for i, l in enumerate(lines):
        s = l.strip()
        if s.startswith("#[cfg(test)]") or s.startswith("#[test]") or re.match(r"^mod \w*test", s):
            return
        if skip_indent is not None:
            if l.startswith(skip_indent + "}"):
                skip_indent = None
            continue
        if re.search(r"fn (fmt|size_hint)\(", l) or "panic!(" in l and False:
            skip_indent = l[: len(l) - len(l.lstrip())]
            continue
        if not s or s.startswith("//") or s.startswith("#") or s.startswith("use ") or s.startswith("pub use") or "debug_assert" in s:
            continue
        if s.startswith("///") or s.startswith("//!"):
            continue
        yield i, l


def gen(repo):
    out = []
    for rel in sorted(CHECKS):
        path = os.path.join(repo, rel)
        for i, l in code_lines(path):
            code = l.split("//")[0]
            cands = []
            for a, b in REL + ARI:
                for m in re.finditer(re.escape(a), code):
                    # do not touch generics / arrows / shifts
                    ctx = code[max(0, m.start() - 1): m.end() + 1]
                    if a.strip() in ("<", ">") and ("->" in ctx or "=>" in ctx or "<<" in ctx or ">>" in ctx):
                        continue
                    if a == "==" and code[m.end():m.end() + 1] == "=":
                        continue
                    cands.append((m.start(), m.end(), b, "op"))
            for a, b in CONST:
                if a.startswith(r"\bu") and re.search(r"\bfn\b|\btrait\b|\btype\b|\bimpl\b|<", code):
                    continue
                for m in re.finditer(a, code):
                    cands.append((m.start(), m.end(), b, "const"))
            for st, en, b, kind in cands:
                new = code[:st] + b + code[en:] + l[len(code):]
                out.append({"file": rel, "line": i + 1, "kind": kind, "before": l.strip(), "after": new.strip(), "new": new})
            if DEL.match(code) and "let " not in code:
                ind = l[: len(l) - len(l.lstrip())]
                out.append({"file": rel, "line": i + 1, "kind": "del", "before": l.strip(), "after": "(statement removed)", "new": ind + "();" if False else ind})
    return out


def sh(cmd, cwd, timeout):
    try:
        r = subprocess.run(cmd, cwd=cwd, stdout=subprocess.PIPE, stderr=subprocess.STDOUT, text=True, timeout=timeout, shell=isinstance(cmd, str))
        return r.returncode, r.stdout
    except subprocess.TimeoutExpired as e:
        return 124, (e.stdout or "")[-2000:] if isinstance(e.stdout, str) else ""


def run(lane, maxn, seed):
    repo = os.path.join(lane, "repo"); verif = os.path.join(lane, "verif")
    cands = gen(repo)
    rnd = random.Random(seed)
    # stratify: round-robin over files, random inside a file, deletions and operators before constants
    byfile = {}
    for c in cands:
        byfile.setdefault(c["file"], []).append(c)
    for f in byfile:
        rnd.shuffle(byfile[f])
        byfile[f].sort(key=lambda c: {"del": 0, "op": 1, "const": 2}[c["kind"]] + rnd.random() * 1.5)
    order = []
    weight = {"src/transport/decode.rs": 4, "src/transport/encode.rs": 2, "src/transport/decoder_reader.rs": 2, "src/util.rs": 2,
              "src/parser/streaming.rs": 2, "src/parser/tlf.rs": 2, "src/parser/common.rs": 2, "src/parser/complete.rs": 2}
    while any(byfile.values()):
        for f in sorted(byfile):
            for _ in range(weight.get(f, 1)):
                if byfile[f]:
                    order.append(byfile[f].pop(0))
    res_path = os.path.join(lane, "survey.jsonl")
    done = set()
    if os.path.exists(res_path):
        for l in open(res_path):
            d = json.loads(l); done.add((d["file"], d["line"], d["after"]))
    n = 0
    env = dict(os.environ, CARGO_NET_OFFLINE="true")
    for c in order:
        if n >= maxn:
            break
        key = (c["file"], c["line"], c["after"])
        if key in done:
            continue
        path = os.path.join(repo, c["file"])
        orig = open(path).read()
        lines = orig.split("\n")
        lines[c["line"] - 1] = c["new"]
        open(path, "w").write("\n".join(lines))
        t0 = time.time()
        rec = {k: c[k] for k in ("file", "line", "kind", "before", "after")}
        try:
            rc, out = sh("cargo test --workspace --offline 2>&1 | tail -40", repo, 900)
            ok = re.findall(r"test result: (\w+)\. (\d+) passed; (\d+) failed", out)
            if "error" in out and not ok or not ok or any(o[0] != "ok" for o in ok) or "error: could not compile" in out or "warning: unused" in out and False:
                rec["suite"] = "killed"
            else:
                rec["suite"] = "passes"; n += 1
                rec["checks"] = {}
                for p in CHECKS[c["file"]]:
                    rc, out = sh([os.path.join(verif, "bin", "vf"), "check", p, "--tier", "quick"], verif, 1800)
                    rec["checks"][p] = rc
                    if rc == 1:
                        rec["caught_by"] = p
                        break
                    if rc not in (0, 1):
                        rec.setdefault("tool_errors", []).append([p, out[-600:]])
                rec["verdict"] = "caught" if "caught_by" in rec else "survived"
        finally:
            open(path, "w").write(orig)
        rec["secs"] = round(time.time() - t0)
        with open(res_path, "a") as f:
            f.write(json.dumps(rec) + "\n")
        print(json.dumps(rec)[:300], flush=True)


if __name__ == "__main__":
    if sys.argv[1] == "gen":
        for c in gen(sys.argv[2]):
            print(json.dumps({k: c[k] for k in ("file", "line", "kind", "before", "after")}))
    elif sys.argv[1] == "run":
        run(sys.argv[2], int(sys.argv[3]), int(sys.argv[4]) if len(sys.argv) > 4 else 1)
