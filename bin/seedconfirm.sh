#!/bin/bash
# usage: seedconfirm.sh <worktree-suffix> <seed-id>
# (re-)confirms a seeded change in its scratch worktree /tmp/<sfx> without `git stash` (the stash is shared by all
# worktrees of a repository, so concurrent runs swap each other's changes): src is reset to HEAD, the patch applied,
# the existing suite and the demonstration run; then the patch is reversed and the demonstration run again.
sfx=$1; sid=$2
wt=/tmp/$sfx; patch=/tmp/$sfx.patch; [ -s $patch ] || patch=/verif/seeded/$sid/patch.diff
demo=$(ls $wt/tests/demo*_c*.rs 2>/dev/null | head -1); dn=$(basename $demo .rs)
out=/verif/seeded/$sid; mkdir -p $out
cd $wt || exit 2
git checkout -q -- src && git apply $patch || { echo "patch does not apply"; exit 2; }
echo "== suite with change"; cargo test --workspace --offline --no-fail-fast 2>&1 | grep -E '^test result' | grep -v ' 0 passed; 0 failed' | tee $out/suite_with_change.txt
echo "== demo with change"; cargo test --offline --test $dn 2>&1 | grep -E '^test result|^test .* (FAILED|ok)$' | tee $out/demo_with_change.txt
git apply -R $patch
echo "== demo without change"; cargo test --offline --test $dn 2>&1 | grep -E '^test result|^test .* (FAILED|ok)$' | tee $out/demo_without_change.txt
git apply $patch
