#!/bin/bash
# usage: lanesync.sh <lane-dir> [patch]   private copy of /repo (optionally with a patch applied) and of the /verif working tree
lane=$1; mkdir -p $lane
mkdir -p $lane/repo && find $lane/repo -mindepth 1 -maxdepth 1 ! -name target -exec rm -rf {} + && git -C /repo archive HEAD | tar -x -C $lane/repo   # committed state of /repo (its working tree may be in use by another seed run)
rsync -a --delete --exclude work --exclude .git --exclude 'harness/target*' --exclude replays --exclude seeded /verif/ $lane/verif/
sed -i "s#path = \"/repo\"#path = \"$lane/repo\"#" $lane/verif/harness/Cargo.toml
sed -i "s#\"/repo/tests/libsml-testing\"#\"$lane/repo/tests/libsml-testing\"#" $lane/verif/harness/src/common.rs
find $lane/repo/src -type f -exec touch {} +   # git archive restores commit-time mtimes: cargo would keep a stale build
[ -n "$2" ] && (cd $lane/repo && patch -s -p1 < $2)
exit 0
